use circ::{cs, AtomicRc, Rc, RcObject};
use std::sync::atomic::{AtomicBool, AtomicUsize, Ordering::SeqCst};
use std::sync::mpsc::channel;

struct X { v: u64 }
unsafe impl RcObject for X { fn pop_edges(&mut self, _: &mut Vec<Rc<Self>>) {} }
static X_DROPPED: AtomicBool = AtomicBool::new(false);
impl Drop for X { fn drop(&mut self) { self.v = 0xDEAD; X_DROPPED.store(true, SeqCst); } }

struct Junk;
unsafe impl RcObject for Junk { fn pop_edges(&mut self, _: &mut Vec<Rc<Self>>) {} }

static CELL: std::sync::OnceLock<AtomicRc<X>> = std::sync::OnceLock::new();
static PHASE: AtomicUsize = AtomicUsize::new(0);

// An object whose destructor (run by the collector, i.e. during collection) enters a critical
// section, takes a Snapshot and then releases many references while still inside it.
struct Trigger;
unsafe impl RcObject for Trigger { fn pop_edges(&mut self, _: &mut Vec<Rc<Self>>) {} }
impl Drop for Trigger {
    fn drop(&mut self) {
        let g = cs();
        let s = CELL.get().unwrap().load(SeqCst, &g);
        let e0 = circ::verif::local_state().unwrap().0 >> 1;
        println!("destructor: pinned, announced epoch {}, global {}", e0, circ::verif::global_epoch());
        for round in 0..4 {
            // release 70 unrelated references (public API only)
            let junk: Vec<Rc<Junk>> = (0..70).map(|_| Rc::new(Junk)).collect();
            drop(junk);
            PHASE.store(round * 2 + 1, SeqCst);            // let the other thread work
            while PHASE.load(SeqCst) != round * 2 + 2 { std::thread::yield_now(); }
            println!("destructor: after burst {}: announced epoch {}, global {}, X dropped: {}", round,
                circ::verif::local_state().unwrap().0 >> 1, circ::verif::global_epoch(), X_DROPPED.load(SeqCst));
        }
        let alive = !X_DROPPED.load(SeqCst);
        println!("destructor: guard still live; snapshot of X reads v={:#x}; X alive: {}", s.as_ref().unwrap().v, alive);
        assert!(alive, "X was destructed while a Snapshot of it is protected by a live guard");
        drop(g);
    }
}

fn main() {
    CELL.set(AtomicRc::new(X { v: 7 })).ok();
    let (tx, rx) = channel::<()>();
    let other = std::thread::spawn(move || {
        rx.recv().unwrap();
        for round in 0..4 {
            while PHASE.load(SeqCst) != round * 2 + 1 { std::thread::yield_now(); }
            if round == 0 {
                // unlink X and drop the last reference: from now on only the destructor's guard protects it
                let old = CELL.get().unwrap().swap(Rc::null(), SeqCst);
                drop(old);
            }
            for _ in 0..2 { let g = cs(); g.flush(); }
            PHASE.store(round * 2 + 2, SeqCst);
        }
    });
    // main: make a Trigger garbage and collect it here
    drop(Rc::new(Trigger));
    tx.send(()).unwrap();
    for _ in 0..6 { let g = cs(); g.flush(); }
    other.join().unwrap();
    println!("done; X dropped: {}", X_DROPPED.load(SeqCst));
}
