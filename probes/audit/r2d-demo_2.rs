// C06 - reclaiming a chain needs a number of grace periods PROPORTIONAL to its length as soon as
// its links were not all written in the same epoch (the normal case for any structure that lives
// for a while), although every link is much older than "a few epochs".
//
// Copy to tests/demo_2.rs and run (fails on the unmodified tree):
//
//   CARGO_TARGET_DIR=/tmp/audit2-d/target RUSTFLAGS="--cfg circ_verif" \
//       cargo test --offline --test demo_2 -- --nocapture
//
// Cause: the link stamp (`Tagged::with_high_tag`, 4 bits, written by store/swap/compare_exchange
// in src/strong.rs) and the count stamp (4 bits, src/utils.rs) are compared modulo 16 in
// `dispose_general_node`: a stamp is "old enough" only if it is congruent to one of the 11 epochs
// G-13 ..= G-3; the 5 residues G-2 ..= G+2 are "too recent". A link that is 20, 36, 1000 epochs
// old has an arbitrary residue, so 5 out of 16 of them are taken for fresh ones; the child is then
// re-deferred for three more epochs, and the walk stops again a few nodes further. (The count
// stamp of a node that was never decremented is 0, which is "too recent" in 5 epochs out of 16 as
// well.) Measured: ~1 epoch advance per node, instead of const + n/1024.

use circ::{cs, AtomicRc, Rc, RcObject};
use std::sync::atomic::{AtomicUsize, Ordering::SeqCst};

static DROPS: AtomicUsize = AtomicUsize::new(0);

struct Node {
    next: AtomicRc<Node>,
}
unsafe impl RcObject for Node {
    fn pop_edges(&mut self, out: &mut Vec<Rc<Self>>) {
        out.push(self.next.take());
    }
}
impl Drop for Node {
    fn drop(&mut self) {
        DROPS.fetch_add(1, SeqCst);
    }
}

/// One collection round of a thread that holds no other guard: advances the epoch by one.
fn round() {
    let g = cs();
    g.flush();
}

fn advance_to(target: usize) {
    while circ::verif::global_epoch() < target {
        round();
    }
}

/// Builds a stack of `n` nodes (each push links the new node to the old head), waits until every
/// link is at least 20 epochs old, drops the stack and returns the number of epoch advances that
/// were needed until all `n` nodes were destructed.
fn run(n: usize, one_push_per_epoch: bool) -> usize {
    DROPS.store(0, SeqCst);
    let head = AtomicRc::<Node>::null();
    for _ in 0..n {
        let node = Rc::new(Node { next: AtomicRc::null() });
        let g = cs();
        let old = head.swap(Rc::null(), SeqCst);
        node.as_ref().unwrap().next.store(old, SeqCst, &g);
        head.store(node, SeqCst, &g);
        drop(g);
        if one_push_per_epoch {
            // the structure is in use for a while: the pushes happen in different epochs
            advance_to(circ::verif::global_epoch() + 1);
        }
    }
    advance_to(circ::verif::global_epoch() + 20);

    let e0 = circ::verif::global_epoch();
    drop(head);
    let mut rounds = 0;
    while DROPS.load(SeqCst) < n {
        round();
        rounds += 1;
        assert!(rounds < 100 * n + 1000, "nodes leaked");
    }
    circ::verif::global_epoch() - e0
}

#[test]
fn grace_periods_do_not_depend_on_length() {
    let mut worst = Vec::new();
    for &n in &[100usize, 200, 400, 800, 1600, 3200] {
        let same = run(n, false);
        let spread = run(n, true);
        println!(
            "n={n:5}: all links written in one epoch -> {same:3} epoch advances; \
             one link per epoch -> {spread} epoch advances"
        );
        worst.push((n, same, spread));
    }
    for (n, same, spread) in worst {
        // a small constant plus (a few epochs per) n/1024 - with a lot of slack; the control
        // (all links of one epoch) stays within it
        let bound = 16 + 10 * (n / 1024 + 1);
        assert!(same <= bound, "n={n}: {same} epoch advances (links of one epoch)");
        assert!(
            spread <= bound,
            "n={n}: {spread} epoch advances were needed to reclaim a chain whose links are all \
             at least 20 epochs old (bound {bound})"
        );
    }
}
