// Demonstration 3 (C07): the recursive disposal recurses up to 1024 levels deep regardless of the
// stack it runs on, so destroying a long chain overflows the stack of a thread with a small (but
// legal) stack. The thread that overflows need not even be the one that dropped the chain: any
// thread that runs a collection may pick up the deferred `try_destruct` of the head.
//
// Run with (from the crate root, file copied to tests/):
//   RUSTFLAGS="--cfg circ_verif" CARGO_TARGET_DIR=/tmp/audit-d/target \
//       cargo test --offline --test demo_3 -- --test-threads=1
// (also with --release; STACK_KB=<n> overrides the stack size of the victim thread, default 64)
//
// The test process dies with "thread ... has overflowed its stack" / SIGSEGV-SIGABRT.

use std::sync::atomic::{AtomicUsize, Ordering};

use circ::{cs, AtomicRc, Rc, RcObject};

static DROPS: AtomicUsize = AtomicUsize::new(0);

struct Node {
    next: AtomicRc<Node>,
}

unsafe impl RcObject for Node {
    fn pop_edges(&mut self, out: &mut Vec<Rc<Self>>) {
        out.push(self.next.take());
    }
}

impl Drop for Node {
    fn drop(&mut self) {
        DROPS.fetch_add(1, Ordering::SeqCst);
    }
}

fn round() {
    let g = cs();
    g.flush();
}

#[test]
fn long_chain_on_small_stack() {
    const N: usize = 5000;
    let stack_kb: usize = std::env::var("STACK_KB")
        .ok()
        .and_then(|s| s.parse().ok())
        .unwrap_or(64);

    // Build the chain iteratively: head -> n1 -> n2 -> ... (links stamped at creation).
    let mut head: Rc<Node> = Rc::null();
    for _ in 0..N {
        let g = cs();
        let node = Rc::new(Node {
            next: AtomicRc::null(),
        });
        node.as_ref().unwrap().next.store(head, Ordering::SeqCst, &g);
        head = node;
    }
    // Let the links age by a few epochs, so that the disposal is immediate (recursive).
    for _ in 0..8 {
        round();
    }

    let t = std::thread::Builder::new()
        .stack_size(stack_kb * 1024)
        .spawn(move || {
            drop(head);
            for _ in 0..64 {
                round();
            }
        })
        .unwrap();
    t.join().unwrap();
    for _ in 0..64 {
        round();
    }
    assert_eq!(DROPS.load(Ordering::SeqCst), N);
}
