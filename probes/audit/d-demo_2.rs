// Demonstration 2 (C02; the same mechanism breaks C05 for WeakSnapshot::upgrade): the recursive
// disposal computes `curr_epoch` and the modular space `modu` (maximum = curr_epoch + 1) ONCE per
// node, before it walks over that node's children - but disposing the first child's subtree can
// take arbitrarily long and re-pins the thread every 128 nodes, so the global epoch can be three
// or more steps ahead of `curr_epoch` by the time a later child is released. A fresh stamp
// `curr_epoch + 3` (put on that child by a concurrent, perfectly ordinary unlink) is then
// *smaller* than every other stamp in the stale modular space, `modu.max` throws it away, the
// child is re-stamped with the parent's old stamp and destructed on the spot - while the thread
// that unlinked it still holds a Snapshot of it under a live guard.
//
// Scenario (epochs as observed in this test; E = 7):
//   tree:  P --left--> L1 -> L2 -> ... -> L300      (all garbage once P is dropped)
//          P --right-> R <-- CELL                   (R is shared with a live AtomicRc)
//   T1  drops P, and three collection rounds later runs try_destruct(P) itself:
//       dispose_general_node(P): curr_epoch = E, modu = Modular(E+1), children = [L1, R].
//       It descends into the chain. It is parked (yield hook, site CASC_STATE) at L59, L189, L279;
//       at L128 and L256 the disposal re-pins T1 (`count % 128 == 0`).
//   T2  (the test's main thread) runs one collection round at each park point: E -> E+1 -> E+2
//       -> E+3; then it pins (epoch E+3), loads a Snapshot of R from CELL and stores null into
//       CELL under the same guard: R.strong 2 -> 1, R.stamp = E+3.
//   T1  resumes, finishes the chain, returns to P's loop and releases R with the stale `modu`:
//       modu.max([P.stamp = 4, link = 0, R.stamp = E+3 = 10]) = 4  (10 maps to -15, the minimum),
//       R.strong 1 -> 0, R.stamp = 4; dispose_general_node(R): curr_epoch = E+3, 4 <= E+3-3 ->
//       "immediately reclaimable" -> R is destructed and freed. T2's guard is still alive.
//
// Run with (from the crate root, file copied to tests/):
//   RUSTFLAGS="--cfg circ_verif" CARGO_TARGET_DIR=/tmp/audit-d/target \
//       cargo test --offline --test demo_2 -- --test-threads=1
// `shared_child_survives_its_snapshot` FAILS on the unmodified tree (debug and --release);
// `control_two_advances_only` (same schedule with one epoch advance less) passes.

use std::cell::Cell;
use std::sync::atomic::{AtomicBool, AtomicUsize, Ordering};
use std::time::Duration;

use circ::verif::{self, site};
use circ::{cs, AtomicRc, Rc, RcObject};

const CHAIN: usize = 300;
/// T1 parks when it is about to read the state of the n-th node it disposes (P is the 1st).
const PARK_AT: [usize; 3] = [60, 190, 280];

static PARKED: AtomicUsize = AtomicUsize::new(0);
static GO: AtomicUsize = AtomicUsize::new(0);

thread_local! {
    static IS_T1: Cell<bool> = const { Cell::new(false) };
    static VISITS: Cell<usize> = const { Cell::new(0) };
}

fn hook(s: u32) {
    if s != site::CASC_STATE || !IS_T1.with(|c| c.get()) {
        return;
    }
    let n = VISITS.with(|v| {
        v.set(v.get() + 1);
        v.get()
    });
    if let Some(i) = PARK_AT.iter().position(|&p| p == n) {
        PARKED.store(i + 1, Ordering::SeqCst);
        while GO.load(Ordering::SeqCst) < i + 1 {
            std::thread::sleep(Duration::from_millis(1));
        }
    }
}

struct Node {
    left: AtomicRc<Node>,
    right: AtomicRc<Node>,
    dropped: Option<&'static AtomicBool>,
    value: AtomicUsize,
}

impl Node {
    fn new(dropped: Option<&'static AtomicBool>) -> Self {
        Node {
            left: AtomicRc::null(),
            right: AtomicRc::null(),
            dropped,
            value: AtomicUsize::new(42),
        }
    }
}

unsafe impl RcObject for Node {
    fn pop_edges(&mut self, out: &mut Vec<Rc<Self>>) {
        out.push(self.left.take());
        out.push(self.right.take());
    }
}

impl Drop for Node {
    fn drop(&mut self) {
        self.value.store(0xDEAD, Ordering::SeqCst);
        if let Some(d) = self.dropped {
            d.store(true, Ordering::SeqCst);
        }
    }
}

fn round() {
    let g = cs();
    g.flush();
}

fn wait_parked(i: usize) {
    while PARKED.load(Ordering::SeqCst) < i {
        std::thread::sleep(Duration::from_millis(1));
    }
}

/// Runs the schedule; `advances` of the three park points are used to advance the epoch.
/// Returns whether R had been destructed while T2's guard (and Snapshot) was still alive.
fn scenario(advances: usize, r_dropped: &'static AtomicBool, p_dropped: &'static AtomicBool) -> bool {
    PARKED.store(0, Ordering::SeqCst);
    GO.store(0, Ordering::SeqCst);
    verif::set_yield_hook(Some(hook));

    // Align the stamps: make the global epoch a (non-zero) multiple of 16 before building, so
    // that the 4-bit stamps below read 0 (nodes, links), 4 (P) and 10 (R).
    while verif::global_epoch() % 16 != 0 || verif::global_epoch() == 0 {
        round();
    }
    let e0 = verif::global_epoch();

    // Build the tree.
    let cell: AtomicRc<Node> = AtomicRc::null();
    let p = Rc::new(Node::new(Some(p_dropped)));
    {
        let g = cs();
        let mut head: Rc<Node> = Rc::null();
        for _ in 0..CHAIN {
            let n = Rc::new(Node::new(None));
            n.as_ref().unwrap().left.store(head, Ordering::SeqCst, &g);
            head = n;
        }
        let r = Rc::new(Node::new(Some(r_dropped)));
        let pn = p.as_ref().unwrap();
        pn.left.store(head, Ordering::SeqCst, &g);
        pn.right.store(r.clone(), Ordering::SeqCst, &g);
        cell.store(r, Ordering::SeqCst, &g);
    }
    // Let everything age by four epochs.
    for _ in 0..4 {
        round();
    }
    assert_eq!(verif::global_epoch(), e0 + 4);

    std::thread::scope(|sc| {
        let t1 = sc.spawn(move || {
            IS_T1.with(|c| c.set(true));
            drop(p); // P.stamp = e0 + 4, try_destruct(P) deferred
            for _ in 0..8 {
                round(); // the third round runs try_destruct(P) -> dispose(P) on this thread
                if p_dropped.load(Ordering::SeqCst) {
                    break;
                }
            }
            assert!(p_dropped.load(Ordering::SeqCst));
        });

        // T2 = this thread.
        let mut epoch_at_p = 0;
        for i in 1..=3 {
            wait_parked(i);
            if i == 1 {
                epoch_at_p = verif::global_epoch(); // = curr_epoch of dispose_general_node(P)
                assert_eq!(epoch_at_p, e0 + 7);
            }
            if i <= advances {
                round(); // one epoch advance; T1 re-pins at its next multiple of 128
                assert_eq!(verif::global_epoch(), epoch_at_p + i, "epoch advance {i} did not happen");
            }
            if i < 3 {
                GO.store(i, Ordering::SeqCst);
            }
        }
        // T1 is parked at L279, after its last re-pin. Unlink R from CELL, keeping a Snapshot.
        let g = cs();
        let snap = cell.load(Ordering::SeqCst, &g);
        assert_eq!(snap.as_ref().unwrap().value.load(Ordering::SeqCst), 42);
        cell.store(Rc::null(), Ordering::SeqCst, &g); // R.strong 2 -> 1, R.stamp = current epoch
        assert!(!r_dropped.load(Ordering::SeqCst));

        GO.store(3, Ordering::SeqCst);
        t1.join().unwrap();

        // `g` is still alive, `snap` was loaded under it: R must be intact.
        let destructed = r_dropped.load(Ordering::SeqCst);
        if !destructed {
            assert_eq!(snap.as_ref().unwrap().value.load(Ordering::SeqCst), 42);
        }
        drop(g);
        destructed
    })
}

#[test]
fn shared_child_survives_its_snapshot() {
    static R_DROPPED: AtomicBool = AtomicBool::new(false);
    static P_DROPPED: AtomicBool = AtomicBool::new(false);
    let destructed = scenario(3, &R_DROPPED, &P_DROPPED);
    verif::set_yield_hook(None);
    assert!(
        !destructed,
        "R was destructed by the cascade from P while the Snapshot loaded from CELL was still \
         protected by a live guard"
    );
}

#[test]
fn control_two_advances_only() {
    static R_DROPPED: AtomicBool = AtomicBool::new(false);
    static P_DROPPED: AtomicBool = AtomicBool::new(false);
    let destructed = scenario(2, &R_DROPPED, &P_DROPPED);
    verif::set_yield_hook(None);
    assert!(!destructed);
    // R is reclaimed later, as it should be.
    for _ in 0..8 {
        round();
    }
    assert!(R_DROPPED.load(Ordering::SeqCst));
}
