// Demonstration for finding 1 (out/findings.md): the 29-bit strong-count field overflows silently.
//
// Copy to tests/demo_1.rs and run (fails on the unmodified tree):
//
//   CARGO_TARGET_DIR=/tmp/audit-b/target RUSTFLAGS="--cfg circ_verif" \
//     cargo test --offline --release --test demo_1 -- --test-threads=1
//
// (`--cfg circ_verif` is not needed by this file, it only keeps the build cache shared with the
// other demos. `--release` is only needed to make `clone_overflow` finish in a few seconds; the
// first two tests fail in a debug build as well.)
//
// Violated: C10 (new_many_iter hands out exactly `count` owners, for every count), C01 (a strong
// owner keeps the object alive).

use std::mem::{forget, ManuallyDrop};
use std::sync::atomic::{AtomicUsize, Ordering::SeqCst};

use circ::{cs, Rc, RcObject};

struct Node {
    drops: &'static AtomicUsize,
}

unsafe impl RcObject for Node {
    fn pop_edges(&mut self, _: &mut Vec<Rc<Self>>) {}
}

impl Drop for Node {
    fn drop(&mut self) {
        self.drops.fetch_add(1, SeqCst);
    }
}

fn rounds(n: usize) {
    for _ in 0..n {
        let g = cs();
        g.flush();
    }
}

/// `count = 2^29 + 1` does not fit into the 29-bit strong field: the object is created with
/// strong = 1 (and weak = 2), so it is destructed as soon as ONE of its 2^29 + 1 owners is gone.
#[test]
fn new_many_iter_count_above_field_width() {
    static DROPS: AtomicUsize = AtomicUsize::new(0);
    let count = (1usize << 29) + 1;
    let mut it = Rc::new_many_iter(Node { drops: &DROPS }, count);
    let a = it.next().unwrap();
    let b = ManuallyDrop::new(it.next().unwrap());
    // `it` still owns count - 2 un-yielded shares, `b` owns one.
    drop(a);
    rounds(8);
    let drops = DROPS.load(SeqCst);
    // Do not touch the (already destructed) object again.
    forget(it);
    assert_eq!(
        drops, 0,
        "object destructed although an Rc and {} un-yielded shares still own it",
        count - 2
    );
    let _ = b;
}

/// `count = 2^32` is truncated by `count as u32` to 0: the object is created with strong = 0
/// although the iterator hands out owners, so nothing ever destructs it (or, depending on what
/// the owners do, the counter underflows into the weak field).
#[test]
fn new_many_iter_count_truncated_to_u32() {
    static DROPS: AtomicUsize = AtomicUsize::new(0);
    let count = 1usize << 32;
    let mut it = Rc::new_many_iter(Node { drops: &DROPS }, count);
    let a = it.next().unwrap();
    let strong_seen_by_owner = {
        // An upgrade through a weak pointer of a live Rc must see a positive count; here it sees
        // zero and therefore adds two (one of them for a `try_destruct` that is not pending).
        let w = a.downgrade();
        let up = w.upgrade().expect("object is alive");
        forget(up);
        forget(w);
        #[cfg(circ_verif)]
        {
            circ::verif::rc_counts(&a).unwrap().0
        }
        #[cfg(not(circ_verif))]
        {
            2u32
        }
    };
    forget(a);
    forget(it);
    // one live Rc `a` + one upgraded Rc = 2 real owners among the 2^32 advertised; the count word
    // should say 2^32 (not representable) - it says 2, of which one is a phantom permission.
    assert_ne!(
        strong_seen_by_owner, 2,
        "new_many_iter(_, 2^32) created the object with strong = 0"
    );
}

/// The same overflow through `clone`: two live handles plus 2^29 - 2 leaked clones (`mem::forget`
/// is safe) wrap the strong field to 0 while the object is alive. The next clone then believes it
/// increments "from zero" and adds 2 (one phantom permission for a `try_destruct` that is not
/// pending); after that, dropping two of the three live handles brings the *field* to zero and
/// the object is destructed under the third live handle.
/// `std::sync::Arc` aborts instead of overflowing.
#[test]
fn clone_overflow() {
    static DROPS: AtomicUsize = AtomicUsize::new(0);
    let a = Rc::new(Node { drops: &DROPS });
    let b = a.clone(); // strong = 2
    for _ in 0..((1usize << 29) - 2) {
        forget(a.clone());
    }
    // 2^29 owners, field value 0 (carry in the weak field).
    let c = a.clone(); // field value 2
    drop(c); // field value 1
    drop(b); // field value 0 => "last reference gone" although `a` and 2^29 - 2 others exist
    rounds(8);
    let drops = DROPS.load(SeqCst);
    forget(a);
    assert_eq!(drops, 0, "object destructed although a live Rc owns it");
}
