// Demonstration for finding 5 (C20 / C07 flavour): unbounded recursion
//   try_advance -> registry Iter::next -> Local::finalize -> defer_destroy -> Local::defer
//   -> incr_advance -> (every 64th deferral) try_advance -> ...
// The nesting depth is (number of logically deleted participants in the registry) / 64. Every
// `cs()` made after the thread's own handle has been destroyed (`with_handle` fallback) registers
// and immediately retires a participant, so a thread-local destructor that drops many counted
// pointers leaves that many deleted entries behind; the next thread that merely runs a collection
// round then overflows ITS stack.
//
// Copy to tests/demo_5.rs and run (aborts with "has overflowed its stack" on the unmodified tree):
//
//   CARGO_TARGET_DIR=/tmp/audit-c/target cargo test --offline --test demo_5 -- --nocapture
//
// Debug build: N = 200000 overflows the default 2 MiB stack of the collecting thread.
// Release build: `N=200000 STACK_KB=256 cargo test --release ...` and `N=100000 STACK_KB=128`
// overflow as well.

use circ::{cs, Rc, RcObject};
use std::cell::RefCell;

struct Node;

unsafe impl RcObject for Node {
    fn pop_edges(&mut self, _: &mut Vec<Rc<Self>>) {}
}

struct Foo(RefCell<Vec<Rc<Node>>>);

impl Drop for Foo {
    fn drop(&mut self) {
        // Runs after the thread's participant handle has been destroyed: every `Rc::drop` uses
        // the `with_handle` fallback.
        self.0.borrow_mut().clear();
    }
}

thread_local! {
    static FOO: Foo = const { Foo(RefCell::new(Vec::new())) };
}

fn round() {
    let g = cs();
    g.flush();
}

fn env(name: &str, default: usize) -> usize {
    std::env::var(name)
        .ok()
        .and_then(|s| s.parse().ok())
        .unwrap_or(default)
}

#[test]
fn collection_after_many_fallback_registrations() {
    let n = env("N", 200_000);
    let kb = env("STACK_KB", 2048);
    std::thread::spawn(move || {
        // Initialise FOO first and the participant handle second: at thread exit the handle is
        // destroyed first.
        FOO.with(|f| {
            let mut v = f.0.borrow_mut();
            for _ in 0..n {
                v.push(Rc::new(Node));
            }
        });
        drop(cs());
    })
    .join()
    .unwrap();
    println!("first thread exited; another thread runs ordinary collection rounds");
    std::thread::Builder::new()
        .stack_size(kb << 10)
        .spawn(|| {
            for _ in 0..10 {
                round();
            }
        })
        .unwrap()
        .join()
        .unwrap();
    println!("ok");
}
