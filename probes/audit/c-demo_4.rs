// Demonstration for finding 4 (C07): the recursion of `dispose_general_node` is cut off at a
// FIXED depth of 1024 frames, independent of the stack of the thread that happens to run the
// collection. A thread with a small (but perfectly legal) stack that disposes a chain of more
// than ~1000 nodes overflows its stack and the process aborts.
//
// Copy to tests/demo_4.rs and run (aborts with "has overflowed its stack" on the unmodified tree):
//
//   CARGO_TARGET_DIR=/tmp/audit-c/target cargo test --offline --test demo_4 -- --nocapture
//
// Debug build: overflows with stacks up to (at least) 512 KiB; 1 MiB is enough.
// Release build (`cargo test --release ...`): overflows with `STACK_KB=128`; 192 KiB is enough.
// These numbers are for a node type with trivial `Drop`/`pop_edges`; the user's destructor runs
// on top of the deepest frame.

use circ::{cs, AtomicRc, Rc, RcObject};
use std::sync::atomic::{AtomicUsize, Ordering::SeqCst};

static DROPS: AtomicUsize = AtomicUsize::new(0);

struct Node {
    next: AtomicRc<Node>,
}

unsafe impl RcObject for Node {
    fn pop_edges(&mut self, out: &mut Vec<Rc<Self>>) {
        out.push(self.next.take());
    }
}

impl Drop for Node {
    fn drop(&mut self) {
        DROPS.fetch_add(1, SeqCst);
    }
}

fn round() {
    let g = cs();
    g.flush();
}

#[test]
fn chain_disposal_on_small_stack() {
    let kb: usize = std::env::var("STACK_KB")
        .ok()
        .and_then(|s| s.parse().ok())
        .unwrap_or(256);
    let n = 5000;
    std::thread::Builder::new()
        .stack_size(kb << 10)
        .spawn(move || {
            for _ in 0..20 {
                round();
            }
            let mut head: Rc<Node> = Rc::null();
            {
                let g = cs();
                for _ in 0..n {
                    let a = AtomicRc::null();
                    a.store(head, SeqCst, &g);
                    head = Rc::new(Node { next: a });
                }
            }
            // Let the links age, so that the cascade is immediate.
            for _ in 0..5 {
                round();
            }
            drop(head);
            for _ in 0..200 {
                round();
            }
        })
        .unwrap()
        .join()
        .unwrap();
    assert_eq!(DROPS.load(SeqCst), n);
}
