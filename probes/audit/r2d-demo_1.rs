// C07 - destroying a long chain overflows the stack of a thread with a small (legal) stack.
//
// Copy to tests/demo_1.rs and run (fails = the test binary aborts with "has overflowed its stack"):
//
//   CARGO_TARGET_DIR=/tmp/audit2-d/target RUSTFLAGS="--cfg circ_verif" \
//       cargo test --offline --test demo_1 -- --test-threads=1
//   (also with --release; no instrumentation is used, so RUSTFLAGS is optional)
//
// `dispose_general_node` (src/utils.rs) recurses once per node and only gives up at depth 1024.
// One frame of it takes ~600 bytes in a debug build and ~200 bytes in a release build (measured:
// debug overflows a 512 KiB stack, release a 128 KiB stack), and whatever `pop_edges`/`Drop` code
// the compiler inlines into it is multiplied by 1024 as well. The cascade runs on whichever thread
// happens to execute the collection, so a thread that never touched the chain is hit too.
//
// Test 1: the main thread builds a chain of 3000 nodes (links several epochs old), drops it and
//         flushes; a thread with a 128 KiB stack that only enters and leaves critical sections
//         runs the collection and dies.
// Test 2: the same on a thread with the *default* stack size (2 MiB), where `pop_edges` is
//         `#[inline(always)]` and uses a 4 KiB scratch buffer.

use circ::{cs, AtomicRc, Rc, RcObject};
use std::sync::atomic::{AtomicUsize, Ordering::SeqCst};

static DROPS: AtomicUsize = AtomicUsize::new(0);

fn round() {
    let g = cs();
    g.flush();
}

struct Node {
    next: AtomicRc<Node>,
}
unsafe impl RcObject for Node {
    fn pop_edges(&mut self, out: &mut Vec<Rc<Self>>) {
        out.push(self.next.take());
    }
}
impl Drop for Node {
    fn drop(&mut self) {
        DROPS.fetch_add(1, SeqCst);
    }
}

#[test]
fn t1_small_stack_thread_runs_the_collection() {
    const N: usize = 3000;
    let mut head = Rc::<Node>::null();
    for _ in 0..N {
        let node = Rc::new(Node { next: AtomicRc::null() });
        let g = cs();
        node.as_ref().unwrap().next.store(head, SeqCst, &g);
        head = node;
    }
    for _ in 0..8 {
        round(); // the links are now 8 epochs old
    }
    let before = DROPS.load(SeqCst);
    drop(head); // defers the destruction of the first node ...
    round(); // ... and hands the bag to the global queue (not yet expired: nothing is run here)
    assert_eq!(DROPS.load(SeqCst), before);

    // A thread with a small stack that merely enters and leaves critical sections.
    std::thread::Builder::new()
        .stack_size(128 * 1024)
        .spawn(|| {
            for _ in 0..64 {
                round();
            }
        })
        .unwrap()
        .join()
        .unwrap();
    for _ in 0..64 {
        round();
    }
    assert_eq!(DROPS.load(SeqCst) - before, N);
}

struct Fat {
    next: AtomicRc<Fat>,
    name: [u8; 32],
}
unsafe impl RcObject for Fat {
    #[inline(always)]
    fn pop_edges(&mut self, out: &mut Vec<Rc<Self>>) {
        // a scratch buffer, e.g. to format a log line
        let mut buf = [0u8; 4096];
        buf[..32].copy_from_slice(&self.name);
        std::hint::black_box(&mut buf);
        out.push(self.next.take());
    }
}
impl Drop for Fat {
    fn drop(&mut self) {
        DROPS.fetch_add(1, SeqCst);
    }
}

#[test]
fn t2_default_stack_with_inlined_pop_edges() {
    const N: usize = 3000;
    let before = DROPS.load(SeqCst);
    // default stack size of spawned threads: 2 MiB
    std::thread::spawn(move || {
        let mut head = Rc::<Fat>::null();
        for _ in 0..N {
            let node = Rc::new(Fat { next: AtomicRc::null(), name: [1; 32] });
            let g = cs();
            node.as_ref().unwrap().next.store(head, SeqCst, &g);
            head = node;
        }
        for _ in 0..8 {
            round();
        }
        drop(head);
        for _ in 0..64 {
            round();
        }
    })
    .join()
    .unwrap();
    for _ in 0..64 {
        round();
    }
    assert_eq!(DROPS.load(SeqCst) - before, N);
}
