// Demonstration 2: collections nest without bound during thread teardown (C07, C20).
//
// Once the thread-local participant handle has been destroyed, every `cs()` registers a fresh
// temporary participant - also the `cs()` inside `utils::dispose`, which runs *inside* a
// collection. The `collecting` flag that prevents a collection from starting within a collection
// is per participant, so the drop of that inner guard starts a new collection as soon as the
// disposal has deferred more than 64 functions through it (here: 70 `try_dealloc`s of nodes that
// have been weakly referenced once). That collection pops the next expired bag, disposes the next
// structure under yet another temporary participant, and so on: one nesting level (1.1 KiB of
// stack in a debug build, 340 bytes in a release build) per expired bag in the global queue.
//
// Copy to tests/demo_2.rs and run
//
//   RUSTFLAGS="--cfg circ_verif" CARGO_TARGET_DIR=/tmp/audit2-c/target \
//     cargo test --offline --test demo_2 nesting_depth -- --test-threads=1 --nocapture
//   RUSTFLAGS="--cfg circ_verif" CARGO_TARGET_DIR=/tmp/audit2-c/target \
//     cargo test --offline --test demo_2 default_stack -- --test-threads=1
//   (control, passes:)
//   RUSTFLAGS="--cfg circ_verif" CARGO_TARGET_DIR=/tmp/audit2-c/target \
//     cargo test --offline --test demo_2 huge_stack -- --test-threads=1 --nocapture
//
// `nesting_depth...` FAILS on the unmodified tree with an assertion, `default_stack_overflows`
// FAILS by overflowing the 2 MiB stack of a spawned thread (SIGSEGV, the test process dies), in
// debug and in release builds. Setting DEMO_NO_WEAK=1 (nodes never weakly referenced, hence no
// deferral inside the disposal) makes both pass: no nesting.

use std::cell::{Cell, RefCell};
use std::sync::atomic::{AtomicUsize, Ordering::SeqCst};

use circ::{cs, AtomicRc, Rc, RcObject};

static DROPS: AtomicUsize = AtomicUsize::new(0);
/// Lowest / highest stack address seen in the destructor of a chain head.
static LOW: AtomicUsize = AtomicUsize::new(usize::MAX);
static HIGH: AtomicUsize = AtomicUsize::new(0);

const CHAIN: usize = 70;

struct Node {
    head: bool,
    next: AtomicRc<Node>,
}

unsafe impl RcObject for Node {
    fn pop_edges(&mut self, out: &mut Vec<Rc<Self>>) {
        out.push(self.next.take());
    }
}

impl Drop for Node {
    fn drop(&mut self) {
        DROPS.fetch_add(1, SeqCst);
        if self.head {
            let marker = 0u8;
            let sp = &marker as *const u8 as usize;
            LOW.fetch_min(sp, SeqCst);
            HIGH.fetch_max(sp, SeqCst);
        }
    }
}

/// A chain of `CHAIN` nodes each of which has been the target of a `Weak` at some time (as in any
/// structure with weak back pointers or a weak side index).
fn chain() -> Rc<Node> {
    let mut next = Rc::null();
    for i in 0..CHAIN {
        let n = Rc::new(Node {
            head: i == CHAIN - 1,
            next: AtomicRc::from(next),
        });
        if std::env::var("DEMO_NO_WEAK").is_err() {
            drop(n.downgrade());
        }
        next = n;
    }
    next
}

fn round() {
    let g = cs();
    g.flush();
}

/// A thread-local cache of structures, released when the thread exits.
struct Cache {
    roots: RefCell<Vec<Rc<Node>>>,
    expected: Cell<usize>,
    handle_alive: Cell<bool>,
}

impl Drop for Cache {
    fn drop(&mut self) {
        // The thread's participant handle is gone already: every `cs()` below (also the implicit
        // ones in `Rc::drop` and in the disposal of objects) registers a temporary participant.
        assert_eq!(circ::verif::local_state().is_none(), !self.handle_alive.get());
        self.roots.borrow_mut().clear();
        // Make sure the garbage of this thread is reclaimed before it is gone.
        let expected = self.expected.get();
        let mut rounds = 0;
        while DROPS.load(SeqCst) < expected && rounds < 1_000_000 {
            round();
            rounds += 1;
        }
        if std::env::var("DEMO_TRACE").is_ok() {
            eprintln!("{} rounds, {} nodes destructed", rounds, DROPS.load(SeqCst));
        }
    }
}

thread_local! {
    static CACHE: Cache = Cache { roots: RefCell::new(Vec::new()), expected: Cell::new(0), handle_alive: Cell::new(false) };
}

fn worker(m: usize, handle_first: bool) {
    if handle_first {
        // Control: the participant handle is initialized first and thus destroyed last.
        drop(cs());
    }
    // Initialize `CACHE` before the participant handle, so that it is destroyed after it.
    CACHE.with(|c| {
        c.expected.set(m * CHAIN);
        c.handle_alive.set(handle_first)
    });
    // ... and only now the participant handle of this thread.
    drop(cs());
    CACHE.with(|c| {
        let mut roots = c.roots.borrow_mut();
        for _ in 0..m {
            roots.push(chain());
        }
    });
}

fn run(m: usize, stack: Option<usize>, handle_first: bool) -> (usize, usize) {
    DROPS.store(0, SeqCst);
    LOW.store(usize::MAX, SeqCst);
    HIGH.store(0, SeqCst);
    let mut b = std::thread::Builder::new();
    if let Some(s) = stack {
        b = b.stack_size(s);
    }
    b.spawn(move || worker(m, handle_first)).unwrap().join().unwrap();
    let used = HIGH.load(SeqCst).saturating_sub(LOW.load(SeqCst));
    (DROPS.load(SeqCst), used)
}

/// With a huge stack: the stack consumed between the shallowest and the deepest destructor call
/// of a chain head grows linearly with the number of structures released.
#[test]
fn nesting_depth_grows_with_the_amount_of_garbage() {
    // Control: the same destructor while the thread's own participant handle is still alive.
    let (d0, s0) = run(2000, Some(1 << 30), true);
    eprintln!("control (handle alive), 2000 structures: {} nodes destructed, stack span {} bytes", d0, s0);
    assert_eq!(d0, 2000 * CHAIN);
    assert!(s0 <= 64 * 1024);
    let (d1, s1) = run(200, Some(1 << 30), false);
    let (d2, s2) = run(2000, Some(1 << 30), false);
    eprintln!("200 structures: {} nodes destructed, stack span {} bytes", d1, s1);
    eprintln!("2000 structures: {} nodes destructed, stack span {} bytes", d2, s2);
    // With bounded nesting the span would be the same for both sizes (the recursion over one
    // 70-node chain, plus one collection).
    assert!(
        s2 <= 2 * s1.max(64 * 1024),
        "stack use is proportional to the amount of pending garbage: {} bytes for 200 \
         structures, {} bytes for 2000",
        s1,
        s2
    );
}

/// Control for the next test: the same 10000 structures on a 1 GiB stack are reclaimed completely,
/// i.e. the crash of the next test is a stack overflow and nothing else.
#[test]
fn huge_stack_control() {
    let (d, s) = run(10000, Some(1 << 30), false);
    eprintln!("{} nodes destructed, stack span {} bytes", d, s);
    assert_eq!(d, 10000 * CHAIN);
}

/// With the default stack of a spawned thread (2 MiB) the same program overflows the stack.
#[test]
fn default_stack_overflows() {
    let (d, s) = run(10000, None, false);
    eprintln!("{} nodes destructed, stack span {} bytes", d, s);
}
