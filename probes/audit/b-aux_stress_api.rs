// Randomised multi-threaded stress of the public API with random delays injected at yield points.
#![cfg(circ_verif)]
use circ::*;
use rand::prelude::*;
use std::cell::RefCell;
use std::sync::atomic::{AtomicBool, AtomicUsize, Ordering::SeqCst};
use std::sync::Arc;
use std::time::{Duration, Instant};

const MAGIC: usize = 0xA11CE;
const DEAD: usize = 0xDEAD;
static LIVE: AtomicUsize = AtomicUsize::new(0);
static BAD: AtomicUsize = AtomicUsize::new(0);

struct N {
    canary: AtomicUsize,
    next: AtomicRc<N>,
    back: AtomicWeak<N>,
}
unsafe impl RcObject for N {
    fn pop_edges(&mut self, out: &mut Vec<Rc<Self>>) {
        if self.canary.load(SeqCst) != MAGIC { BAD.fetch_add(1, SeqCst); }
        out.push(self.next.take());
    }
}
impl Drop for N {
    fn drop(&mut self) {
        if self.canary.swap(DEAD, SeqCst) != MAGIC { BAD.fetch_add(1, SeqCst); }
        LIVE.fetch_sub(1, SeqCst);
    }
}
fn new_node() -> Rc<N> {
    LIVE.fetch_add(1, SeqCst);
    Rc::new(N { canary: AtomicUsize::new(MAGIC), next: AtomicRc::null(), back: AtomicWeak::null() })
}
fn chk(s: Snapshot<'_, N>) {
    if let Some(n) = s.as_ref() {
        if n.canary.load(SeqCst) != MAGIC { BAD.fetch_add(1, SeqCst); }
    }
}
thread_local! { static RNG: RefCell<StdRng> = RefCell::new(StdRng::from_entropy()); }
fn hook(_site: u32) {
    let r: u32 = RNG.try_with(|r| r.borrow_mut().gen()).unwrap_or(1);
    if r % 4096 == 0 { std::thread::sleep(Duration::from_micros(300)); }
    else if r % 64 == 0 { std::thread::yield_now(); }
}

#[test]
fn stress() {
    circ::verif::set_yield_hook(Some(hook));
    let secs: u64 = std::env::var("SECS").ok().and_then(|s| s.parse().ok()).unwrap_or(10);
    let cells: Arc<Vec<AtomicRc<N>>> = Arc::new((0..4).map(|_| AtomicRc::null()).collect());
    let wcells: Arc<Vec<AtomicWeak<N>>> = Arc::new((0..4).map(|_| AtomicWeak::null()).collect());
    let stop = Arc::new(AtomicBool::new(false));
    let mut hs = vec![];
    for _t in 0..6 {
        let (cells, wcells, stop) = (cells.clone(), wcells.clone(), stop.clone());
        hs.push(std::thread::spawn(move || {
            let mut rng = StdRng::from_entropy();
            let mut held: Vec<Rc<N>> = vec![];
            let mut wheld: Vec<Weak<N>> = vec![];
            while !stop.load(SeqCst) {
                let g = cs();
                let c = &cells[rng.gen_range(0..4)];
                let wc = &wcells[rng.gen_range(0..4)];
                match rng.gen_range(0..16) {
                    0 | 1 => {
                        // push
                        let n = new_node();
                        loop {
                            let h = c.load(SeqCst, &g); chk(h);
                            n.as_ref().unwrap().next.store(h.counted(), SeqCst, &g);
                            n.as_ref().unwrap().back.store(h.downgrade().counted(), SeqCst, &g);
                            match c.compare_exchange(h, n.clone(), SeqCst, SeqCst, &g) { Ok(old) => { drop(old); break } Err(e) => { chk(e.current); drop(e.desired) } }
                        }
                    }
                    2 | 3 => {
                        // pop
                        loop {
                            let h = c.load(SeqCst, &g); chk(h);
                            let Some(hn) = h.as_ref() else { break };
                            let nx = hn.next.load(SeqCst, &g); chk(nx);
                            match c.compare_exchange(h, nx.counted(), SeqCst, SeqCst, &g) { Ok(old) => { if rng.gen_bool(0.3) { held.push(old) } else if rng.gen_bool(0.5) { old.finalize(&g) } ; break } Err(e) => { chk(e.current); } }
                        }
                    }
                    4 => {
                        // traverse
                        let mut s = c.load(SeqCst, &g);
                        let mut k = 0;
                        while let Some(n) = s.as_ref() { chk(s); s = n.next.load(SeqCst, &g); k += 1; if k > 50 { break } }
                    }
                    5 => {
                        // cut a tail: replace some node's next by null (unlinks a chain)
                        let mut s = c.load(SeqCst, &g);
                        for _ in 0..rng.gen_range(0..6) { if let Some(n) = s.as_ref() { s = n.next.load(SeqCst, &g); } }
                        if let Some(n) = s.as_ref() { chk(s); let old = n.next.swap(Rc::null(), SeqCst); if rng.gen_bool(0.2) { held.push(old) } }
                    }
                    6 => { let h = c.load(SeqCst, &g); chk(h); wc.store(h.downgrade().counted(), SeqCst, &g); }
                    7 | 8 => {
                        let ws = wc.load(SeqCst, &g);
                        if let Some(s) = ws.upgrade() {
                            chk(s);
                            // walk from the upgraded node
                            let mut t = s; let mut k = 0;
                            while let Some(n) = t.as_ref() { chk(t); t = n.next.load(SeqCst, &g); k += 1; if k > 20 { break } }
                            // walk back pointers
                            let mut t = s; let mut k = 0;
                            while let Some(n) = t.as_ref() { chk(t); match n.back.load(SeqCst, &g).upgrade() { Some(b) => t = b, None => break }; k += 1; if k > 20 { break } }
                            if rng.gen_bool(0.2) { held.push(s.counted()); }
                        }
                    }
                    9 => { let ws = wc.load(SeqCst, &g); wheld.push(ws.counted()); }
                    10 => { if let Some(w) = wheld.pop() { if let Some(r) = w.upgrade() { chk(r.snapshot(&g)); if rng.gen_bool(0.5) { held.push(r) } } } }
                    11 => { if !held.is_empty() { let i = rng.gen_range(0..held.len()); let r = held.swap_remove(i); chk(r.snapshot(&g)); if rng.gen_bool(0.5) { let old = c.swap(r, SeqCst); drop(old) } else { drop(r) } } }
                    12 => { let h = c.load(SeqCst, &g); let _ = c.compare_exchange_tag(h, rng.gen_range(0..4), SeqCst, SeqCst, &g); }
                    13 => { let old = wc.swap(Weak::null(), SeqCst); if rng.gen_bool(0.5) { wheld.push(old) } }
                    14 => { drop(g); let g = cs(); g.flush(); continue; }
                    _ => { if held.len() > 8 { held.clear() } if wheld.len() > 8 { wheld.clear() } }
                }
                for r in &held { chk(r.snapshot(&g)); }
            }
        }));
    }
    let t0 = Instant::now();
    while t0.elapsed() < Duration::from_secs(secs) { std::thread::sleep(Duration::from_millis(100)); if BAD.load(SeqCst) != 0 { break } }
    stop.store(true, SeqCst);
    for h in hs { h.join().unwrap(); }
    circ::verif::set_yield_hook(None);
    assert_eq!(BAD.load(SeqCst), 0, "canary violations");
    for c in cells.iter() { drop(c.swap(Rc::null(), SeqCst)); }
    for c in wcells.iter() { drop(c.swap(Weak::null(), SeqCst)); }
    for _ in 0..200 { let g = cs(); g.flush(); }
    assert_eq!(BAD.load(SeqCst), 0, "canary violations");
    assert_eq!(LIVE.load(SeqCst), 0, "leak");
}
