// Demonstration for finding 2 (C13 / C18, memory safety of the collector itself): during a
// collection the collecting thread is re-pinned every time its bag fills up
// (`schedule_collection` -> `repin_without_collect`), also while `try_advance` is in the middle of
// its registry scan and while `Local::defer` -> `incr_advance` runs a *nested* `try_advance`.
// A pointer obtained under the guard survives ONE such re-pin (that is what the 3-epoch expiry
// buys), but not two. The suspended outer registry iterator keeps its `curr` pointer across an
// unbounded number of re-pins, so the participant record it points to can be unlinked (by the
// nested scan), sealed, expire and be freed by another thread before the outer iterator
// dereferences it.
//
// Copy to tests/demo_2.rs and run (dies with SIGSEGV on the unmodified tree, deterministically;
// the handler installed below prints what was touched and exits with status 101):
//
//   RUSTFLAGS="--cfg circ_verif" CARGO_TARGET_DIR=/tmp/audit-c/target \
//       cargo test --offline --test demo_2 -- --nocapture
//
// To make the use-after-free observable, the test installs a global allocator that gives every
// allocation with alignment >= 128 (the participant records `Local`, which contain `CachePadded`
// fields) a page of its own and makes that page inaccessible when it is freed.
//
// Scenario (only safe public API calls plus `verif::defer` with an empty closure to set the
// per-thread `advance_count`; 193 short-lived threads T1..T193 that each entered one critical
// section; D1 = T193 is the head of the registry, D2 = T192, ...):
//
//  * T193..T129 (D1..D65) exit. Thread A: `let g = cs();` 63 deferrals, `g.flush()`, `drop(g)`.
//    `unpin` -> `collect` -> `try_advance` (level 0) unlinks D1 and defers its destruction: the 64th
//    deferral -> `incr_advance` -> nested `try_advance` (level 1), which unlinks D2..D65 - the
//    level-0 iterator is suspended with `curr = D2`. The deferral of D65 finds the bag full:
//    bag #1 = {D1..D64} is sealed at epoch e.
//  * A is parked right after reading the seal epoch. B does a collection round
//    `{ let g = cs(); g.flush(); }`: epoch e -> e+1. T128..T65 (D66..D129) exit. A resumes: pushes
//    the bag, is re-pinned to e+1; 128th deferral -> level 2, which unlinks D66..D129; bag #2 is
//    sealed at e+1; A parked; B: e+1 -> e+2; T64..T1 exit; A re-pinned to e+2; level 3 unlinks
//    D130..D193; bag #3 sealed at e+2; A parked; B: e+2 -> e+3, and B's collection pops bag #1
//    (sealed at e, expired) and frees D1..D64.
//  * A resumes, is re-pinned to e+3, finishes levels 4..1 and returns into level 0, which
//    dereferences `curr = D2`: freed memory.

use circ::cs;
use circ::verif::{self, site};
use std::alloc::{GlobalAlloc, Layout, System};
use std::cell::Cell;
use std::sync::atomic::{AtomicBool, AtomicUsize, Ordering::SeqCst};

// ---------------------------------------------------------------------------------------------
// libc bits (std links libc anyway).
extern "C" {
    fn mmap(addr: *mut u8, len: usize, prot: i32, flags: i32, fd: i32, off: i64) -> *mut u8;
    fn mprotect(addr: *mut u8, len: usize, prot: i32) -> i32;
    fn sigaction(sig: i32, act: *const SigAction, old: *mut SigAction) -> i32;
    fn write(fd: i32, buf: *const u8, n: usize) -> isize;
    fn _exit(code: i32) -> !;
}
const PROT_NONE: i32 = 0;
const PROT_RW: i32 = 3;
const MAP_PRIVATE_ANON: i32 = 0x22;
const SIGSEGV: i32 = 11;
const SA_SIGINFO: i32 = 4;

#[repr(C)]
struct SigAction {
    handler: usize,
    mask: [u64; 16],
    flags: i32,
    restorer: usize,
}

// ---------------------------------------------------------------------------------------------
// Allocator: page-per-object with revocation for the participant records, System otherwise.
const MAX_REC: usize = 1024;
static REC_ADDR: [AtomicUsize; MAX_REC] = [const { AtomicUsize::new(0) }; MAX_REC];
static REC_FREED: [AtomicBool; MAX_REC] = [const { AtomicBool::new(false) }; MAX_REC];
static REC_N: AtomicUsize = AtomicUsize::new(0);

thread_local! {
    static IS_A: Cell<bool> = const { Cell::new(false) };
    /// Set when thread A has just allocated the replacement bag in `push_bag`.
    static IN_PUSH: Cell<bool> = const { Cell::new(false) };
}
static ARMED: AtomicBool = AtomicBool::new(false);

struct Fence;

fn pages(size: usize) -> usize {
    (size + 4095) & !4095
}

unsafe impl GlobalAlloc for Fence {
    unsafe fn alloc(&self, l: Layout) -> *mut u8 {
        if l.align() >= 128 {
            let p = mmap(
                core::ptr::null_mut(),
                pages(l.size()),
                PROT_RW,
                MAP_PRIVATE_ANON,
                -1,
                0,
            );
            assert!(p as isize != -1);
            let i = REC_N.fetch_add(1, SeqCst);
            if i < MAX_REC {
                REC_ADDR[i].store(p as usize, SeqCst);
            }
            return p;
        }
        // `Bag::new()` = `Vec::<Deferred>::with_capacity(64)`: 64 * 32 bytes.
        if l.size() == 2048 && l.align() == 8 && ARMED.load(SeqCst) {
            if IS_A.try_with(|c| c.get()).unwrap_or(false) {
                let _ = IN_PUSH.try_with(|c| c.set(true));
            }
        }
        System.alloc(l)
    }
    unsafe fn dealloc(&self, p: *mut u8, l: Layout) {
        if l.align() >= 128 {
            let n = REC_N.load(SeqCst).min(MAX_REC);
            for i in 0..n {
                if REC_ADDR[i].load(SeqCst) == p as usize {
                    REC_FREED[i].store(true, SeqCst);
                }
            }
            // Revoke instead of reusing.
            mprotect(p, pages(l.size()), PROT_NONE);
            return;
        }
        System.dealloc(p, l)
    }
}

#[global_allocator]
static GLOBAL: Fence = Fence;

fn put(s: &str) {
    unsafe {
        write(2, s.as_ptr(), s.len());
    }
}
fn put_hex(mut v: usize) {
    let mut buf = [0u8; 18];
    buf[0] = b'0';
    buf[1] = b'x';
    for i in (2..18).rev() {
        buf[i] = b"0123456789abcdef"[v & 15];
        v >>= 4;
    }
    unsafe {
        write(2, buf.as_ptr(), 18);
    }
}
fn put_dec(v: usize) {
    let mut buf = [0u8; 20];
    let mut i = 20;
    let mut v = v;
    loop {
        i -= 1;
        buf[i] = b'0' + (v % 10) as u8;
        v /= 10;
        if v == 0 {
            break;
        }
    }
    unsafe {
        write(2, buf[i..].as_ptr(), 20 - i);
    }
}

extern "C" fn on_segv(_sig: i32, info: *const u8, _ctx: *const u8) {
    // si_addr is at offset 16 of siginfo_t on x86_64/aarch64 Linux.
    let addr = unsafe { *(info.add(16) as *const usize) };
    put("\nSIGSEGV at address ");
    put_hex(addr);
    let n = REC_N.load(SeqCst).min(MAX_REC);
    for i in 0..n {
        let base = REC_ADDR[i].load(SeqCst);
        if addr >= base && addr < base + 4096 {
            put(": inside 128-aligned allocation #");
            put_dec(i);
            put(" (a participant record `Local`), freed = ");
            put(if REC_FREED[i].load(SeqCst) { "true" } else { "false" });
        }
    }
    put("\nFAILED: the collector dereferenced a participant record that had already been freed\n");
    unsafe { _exit(101) }
}

// ---------------------------------------------------------------------------------------------
const N_T: usize = 193;
/// Threads T[i] with i >= EXIT_FROM may exit.
static EXIT_FROM: AtomicUsize = AtomicUsize::new(usize::MAX);
/// Number of times A parked / was released.
static PARKS: AtomicUsize = AtomicUsize::new(0);
static RELEASES: AtomicUsize = AtomicUsize::new(0);
/// Rounds requested from / done by B.
static B_REQ: AtomicUsize = AtomicUsize::new(0);
static B_DONE: AtomicUsize = AtomicUsize::new(0);
static STOP: AtomicBool = AtomicBool::new(false);
static A_STAGE: AtomicUsize = AtomicUsize::new(0);

fn round() {
    let g = cs();
    g.flush();
}

fn wait(f: impl Fn() -> bool) {
    while !f() {
        std::thread::yield_now();
    }
}

fn hook(s: u32) {
    if s != site::EPOCH_LOADED || !ARMED.load(SeqCst) {
        return;
    }
    if !IS_A.try_with(|c| c.get()).unwrap_or(false) {
        return;
    }
    if IN_PUSH.try_with(|c| c.replace(false)).unwrap_or(false) {
        // `push_bag` has just read the epoch it seals the full bag with.
        let k = PARKS.fetch_add(1, SeqCst) + 1;
        wait(|| RELEASES.load(SeqCst) >= k);
    }
}

fn b_round() {
    let r = B_REQ.fetch_add(1, SeqCst) + 1;
    wait(|| B_DONE.load(SeqCst) >= r);
}

#[test]
fn registry_scan_touches_freed_participant() {
    unsafe {
        let act = SigAction {
            handler: on_segv as *const () as usize,
            mask: [0; 16],
            flags: SA_SIGINFO,
            restorer: 0,
        };
        assert_eq!(sigaction(SIGSEGV, &act, core::ptr::null_mut()), 0);
    }
    verif::set_yield_hook(Some(hook));

    // A registers first, then B, then T1..T193 (the registry is a stack: T193 is its head).
    let a = std::thread::spawn(|| {
        IS_A.with(|c| c.set(true));
        drop(cs());
        A_STAGE.store(1, SeqCst);
        wait(|| A_STAGE.load(SeqCst) == 2);
        // Warm up: move away from the first epochs and let the queue drain.
        for _ in 0..24 {
            round();
        }
        A_STAGE.store(3, SeqCst);
        wait(|| A_STAGE.load(SeqCst) == 4);
        // D1..D65 are now logically deleted. This pin is in a newer epoch than A's previous one,
        // which resets `advance_count`.
        let g = cs();
        for _ in 0..63 {
            unsafe { verif::defer(&g, || {}) };
        }
        g.flush();
        ARMED.store(true, SeqCst);
        drop(g); // unpin -> collect -> try_advance -> ...
        ARMED.store(false, SeqCst);
        A_STAGE.store(5, SeqCst);
    });
    wait(|| A_STAGE.load(SeqCst) == 1);

    let b = std::thread::spawn(|| {
        drop(cs());
        let mut done = 0;
        loop {
            wait(|| B_REQ.load(SeqCst) > done || STOP.load(SeqCst));
            if STOP.load(SeqCst) {
                break;
            }
            round();
            done += 1;
            B_DONE.store(done, SeqCst);
        }
    });
    b_round();

    let first_t = REC_N.load(SeqCst);
    let mut ts = Vec::new();
    for i in 0..N_T {
        let ready = std::sync::Arc::new(AtomicBool::new(false));
        let r2 = ready.clone();
        ts.push(Some(
            std::thread::Builder::new()
                .stack_size(64 << 10)
                .spawn(move || {
                    drop(cs());
                    r2.store(true, SeqCst);
                    wait(|| EXIT_FROM.load(SeqCst) <= i);
                })
                .unwrap(),
        ));
        wait(|| ready.load(SeqCst));
    }
    // Allocation index of the record of T[i] (0-based i).
    let rec_of = |i: usize| first_t + i;
    assert_eq!(REC_N.load(SeqCst), first_t + N_T);
    let exit_from = |from: usize, ts: &mut Vec<Option<std::thread::JoinHandle<()>>>| {
        EXIT_FROM.store(from, SeqCst);
        for t in ts.iter_mut().skip(from) {
            if let Some(t) = t.take() {
                t.join().unwrap();
            }
        }
    };

    // Warm-up rounds by A (its last round leaves the epoch one above A's last pin), then B.
    A_STAGE.store(2, SeqCst);
    wait(|| A_STAGE.load(SeqCst) == 3);
    for _ in 0..4 {
        b_round();
    }
    // A's last pin must be in an older epoch than its next one: B's rounds took care of that.

    // Batch 1: D1..D65 = T193..T129 (indices 192..=128).
    exit_from(128, &mut ts);
    let e = verif::global_epoch();
    println!(
        "global epoch e = {e}; D1..D65 exited; the record of D1 is 128-aligned allocation #{}, \
         that of D2 is #{}; A starts its collection",
        rec_of(N_T - 1),
        rec_of(N_T - 2)
    );
    A_STAGE.store(4, SeqCst);

    let d2 = rec_of(N_T - 2);
    for k in 1..=3usize {
        wait(|| PARKS.load(SeqCst) >= k || A_STAGE.load(SeqCst) == 5);
        if A_STAGE.load(SeqCst) == 5 {
            break;
        }
        println!(
            "A parked in push_bag #{k} (seal epoch read = {}); B runs one collection round",
            verif::global_epoch()
        );
        b_round();
        println!(
            "  global epoch now {}; record of D2 freed = {}",
            verif::global_epoch(),
            REC_FREED[d2].load(SeqCst)
        );
        match k {
            1 => exit_from(64, &mut ts), // D66..D129
            2 => exit_from(0, &mut ts),  // D130..D193
            _ => {}
        }
        RELEASES.store(k, SeqCst);
    }
    a.join().unwrap();
    println!("A finished its collection without touching freed memory");
    STOP.store(true, SeqCst);
    b.join().unwrap();
    exit_from(0, &mut ts);
    assert!(
        !REC_FREED[d2].load(SeqCst) || PARKS.load(SeqCst) < 3,
        "D2 was freed while A's suspended iterator still pointed to it"
    );
}
