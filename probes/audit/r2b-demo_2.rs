// demo_2: the recursive disposal recurses up to its fixed cap of 1024 frames whatever the stack
// of the thread that happens to run the collection  ->  stack overflow on a thread with a small
// (but legal) stack.  Violates C07 ("... on any thread including one with a small stack", "every
// thread stack size a user may legally configure").  (Outside my focus area; found on the way.)
//
// Copy to tests/demo_2.rs and run:
//
//   CARGO_TARGET_DIR=/tmp/audit2-b/target cargo test --offline --test demo_2 -- --nocapture
//   CARGO_TARGET_DIR=/tmp/audit2-b/target cargo test --offline --release --test demo_2 -- --nocapture
//
// Both fail with an assertion (the disposal of a 5000-node chain uses ~860 KiB of stack in a debug
// build and ~160 KiB in a release build; the test demands that it fit into 128 KiB).  To see the
// real thing, let a thread with a 128 KiB stack run the collection:
//
//   DEMO_CRASH=1 CARGO_TARGET_DIR=/tmp/audit2-b/target cargo test --offline --release --test demo_2 -- --nocapture
//   ("thread '<unknown>' has overflowed its stack", SIGABRT)
//
// Responsible code: src/utils.rs, `dispose_general_node`: `if depth >= 1024 { re-defer }` is the
// only bound on the recursion `dispose_general_node(next_ptr.as_raw(), depth + 1, ..)`; each frame
// takes ~160 bytes (release) / ~860 bytes (debug) plus whatever the user's `Drop`/`pop_edges`
// need.  The thread that pays is whichever thread unpins next, not the one that dropped the chain.
use circ::{cs, AtomicRc, Rc, RcObject};
use std::sync::atomic::{AtomicUsize, Ordering::SeqCst};

static DROPS: AtomicUsize = AtomicUsize::new(0);
static LO: AtomicUsize = AtomicUsize::new(usize::MAX);
static HI: AtomicUsize = AtomicUsize::new(0);

struct Node {
    next: AtomicRc<Node>,
}
unsafe impl RcObject for Node {
    fn pop_edges(&mut self, out: &mut Vec<Rc<Self>>) {
        out.push(self.next.take());
    }
}
impl Drop for Node {
    fn drop(&mut self) {
        DROPS.fetch_add(1, SeqCst);
        let probe = 0u8;
        let a = &probe as *const u8 as usize;
        LO.fetch_min(a, SeqCst);
        HI.fetch_max(a, SeqCst);
    }
}

#[test]
fn disposal_on_small_stack() {
    const N: usize = 5000;
    let crash = std::env::var("DEMO_CRASH").is_ok();
    // An old chain, built and dropped by the main thread.
    let mut head: Rc<Node> = Rc::null();
    {
        let g = cs();
        for _ in 0..N {
            let n = Rc::new(Node {
                next: AtomicRc::null(),
            });
            drop(n.clone()); // a real epoch stamp instead of the initial 0
            n.as_ref().unwrap().next.store(head, SeqCst, &g);
            head = n;
        }
    }
    for _ in 0..8 {
        let g = cs();
        g.flush();
    }
    // Drop the chain and push the deferred destruction to the global queue. It is not expired yet,
    // so this thread does not run it.
    drop(head);
    {
        let g = cs();
        g.flush();
    }
    // Some other thread, with a small stack of its own, is the next one to collect.
    let stack = if crash { 128 * 1024 } else { 8 * 1024 * 1024 };
    std::thread::Builder::new()
        .stack_size(stack)
        .spawn(|| {
            for _ in 0..12 {
                let g = cs();
                g.flush();
            }
        })
        .unwrap()
        .join()
        .unwrap();
    let span = HI.load(SeqCst).saturating_sub(LO.load(SeqCst)) / 1024;
    eprintln!(
        "{} of {N} nodes destructed by the helper thread, destructor calls span {span} KiB of stack",
        DROPS.load(SeqCst)
    );
    assert!(DROPS.load(SeqCst) > 1000, "the helper did not run the disposal");
    assert!(
        span <= 128,
        "the disposal recursed {span} KiB deep: a thread with a 128 KiB stack overflows"
    );
}
