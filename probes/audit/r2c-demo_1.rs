// Demonstration 1: a panic inside a deferred function (here: the destructor of a
// reference-counted object) that runs in the collection performed by `Local::unpin` leaves the
// participant pinned for ever, with `collecting == true` and a guard count of 1 although no
// guard exists any more. From then on the global epoch can advance at most once more, so no
// thread of the process ever reclaims anything again (C16, C15, C04, C20).
//
// Copy to tests/demo_1.rs and run (each test must run alone, the default collector is global):
//
//   RUSTFLAGS="--cfg circ_verif" CARGO_TARGET_DIR=/tmp/audit2-c/target \
//     cargo test --offline --test demo_1 caught -- --test-threads=1
//   RUSTFLAGS="--cfg circ_verif" CARGO_TARGET_DIR=/tmp/audit2-c/target \
//     cargo test --offline --test demo_1 thread_dies -- --test-threads=1
//
// Both tests FAIL on the unmodified tree.

use std::panic::{catch_unwind, AssertUnwindSafe};
use std::sync::atomic::{AtomicUsize, Ordering::SeqCst};

use circ::{cs, Rc, RcObject};

static DROPS: AtomicUsize = AtomicUsize::new(0);

struct Node {
    bomb: bool,
}

unsafe impl RcObject for Node {
    fn pop_edges(&mut self, _: &mut Vec<Rc<Self>>) {}
}

impl Drop for Node {
    fn drop(&mut self) {
        if self.bomb {
            panic!("this destructor panics (once)");
        }
        DROPS.fetch_add(1, SeqCst);
    }
}

/// One collection round: normally advances the global epoch by one.
fn round() {
    let g = cs();
    g.flush();
}

/// The panic is caught on the thread that ran the collection. Afterwards that thread holds no
/// guard at all, yet its participant is still announced as pinned with a guard count of 1, and
/// it never runs a collection again (`collecting` is stuck at `true`).
#[test]
fn caught_panic_leaves_the_thread_pinned() {
    // Sanity: on a healthy thread an unreferenced object is destructed within a few rounds.
    drop(Rc::new(Node { bomb: false }));
    for _ in 0..8 {
        round();
    }
    assert_eq!(DROPS.load(SeqCst), 1, "sanity: reclamation works before the panic");

    drop(Rc::new(Node { bomb: true }));
    let r = catch_unwind(AssertUnwindSafe(|| {
        for _ in 0..8 {
            round();
        }
    }));
    assert!(r.is_err(), "the destructor's panic surfaces from a guard drop");

    // Every guard this thread ever created has been dropped (or unwound).
    let (word, guards, handles) = circ::verif::local_state().unwrap();
    let e0 = circ::verif::global_epoch();

    // Garbage produced afterwards ...
    drop(Rc::new(Node { bomb: false }));
    for _ in 0..64 {
        round();
    }
    // ... is not reclaimed even with the help of another, healthy thread.
    std::thread::spawn(|| {
        for _ in 0..64 {
            round();
        }
    })
    .join()
    .unwrap();
    let e1 = circ::verif::global_epoch();
    let (word2, guards2, _) = circ::verif::local_state().unwrap();

    eprintln!(
        "after the panic: announced={:#x} (pinned={}), guard_count={}, handle_count={}; \
         128 rounds later: announced={:#x}, guard_count={}, global epoch {} -> {}, drops={}",
        word,
        word & 1,
        guards,
        handles,
        word2,
        guards2,
        e0,
        e1,
        DROPS.load(SeqCst)
    );

    assert_eq!(guards2, 0, "no guard is alive, the guard count must be 0");
    assert_eq!(word2 & 1, 0, "no guard is alive, the thread must not be pinned");
    assert!(e1 >= e0 + 64, "the global epoch is stuck: {} -> {}", e0, e1);
    assert_eq!(DROPS.load(SeqCst), 2, "the object dropped after the panic is never destructed");
}

/// The panic kills the thread that ran the collection. Its `LocalHandle` is destroyed on thread
/// exit, but as the guard count is still 1 the participant is never finalized: it stays in the
/// registry, pinned in an old epoch, for the rest of the process.
#[test]
fn thread_dies_and_blocks_the_epoch_for_ever() {
    let t = std::thread::spawn(|| {
        drop(Rc::new(Node { bomb: true }));
        for _ in 0..8 {
            round();
        }
    });
    assert!(t.join().is_err(), "the thread dies from the destructor's panic");

    let before = DROPS.load(SeqCst);
    let e0 = circ::verif::global_epoch();
    drop(Rc::new(Node { bomb: false }));
    for _ in 0..64 {
        round();
    }
    let e1 = circ::verif::global_epoch();
    eprintln!(
        "global epoch {} -> {} in 64 rounds, drops {} -> {}",
        e0,
        e1,
        before,
        DROPS.load(SeqCst)
    );
    assert!(e1 >= e0 + 32, "the global epoch is stuck: {} -> {}", e0, e1);
    assert_eq!(DROPS.load(SeqCst), before + 1, "nothing is reclaimed any more");
}
