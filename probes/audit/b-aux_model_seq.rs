// Sequential model-based test of the public API (ownership transfer, tags, CAS semantics).
// RUSTFLAGS="--cfg circ_verif" cargo test --offline --test model_seq -- --nocapture
#![cfg(circ_verif)]
use circ::*;
use rand::prelude::*;
use std::collections::{HashMap, HashSet};
use std::sync::atomic::{AtomicUsize, Ordering::SeqCst};
use std::sync::Mutex;

static DROPPED: Mutex<Option<HashSet<usize>>> = Mutex::new(None);
static POPPED: Mutex<Option<HashSet<usize>>> = Mutex::new(None);
static DEALLOCS: AtomicUsize = AtomicUsize::new(0);
static COV: [AtomicUsize; 8] = [const { AtomicUsize::new(0) }; 8];

struct N {
    id: usize,
    next: AtomicRc<N>,
    back: AtomicWeak<N>,
}
unsafe impl RcObject for N {
    fn pop_edges(&mut self, out: &mut Vec<Rc<Self>>) {
        assert!(POPPED.lock().unwrap().as_mut().unwrap().insert(self.id), "pop twice");
        out.push(self.next.take());
    }
}
impl Drop for N {
    fn drop(&mut self) {
        assert!(POPPED.lock().unwrap().as_ref().unwrap().contains(&self.id), "drop before pop");
        assert!(DROPPED.lock().unwrap().as_mut().unwrap().insert(self.id), "drop twice");
    }
}
fn is_dropped(id: usize) -> bool {
    DROPPED.lock().unwrap().as_ref().unwrap().contains(&id)
}
fn ev(kind: u32, _a: usize, _b: usize) {
    if kind == circ::verif::ev::DEALLOC {
        DEALLOCS.fetch_add(1, SeqCst);
    }
}

type P = (Option<usize>, usize); // (object id, tag)

#[derive(Default)]
struct Model {
    next: HashMap<usize, P>, // node id -> content of its next cell
    back: HashMap<usize, P>,
    addr: HashMap<usize, usize>, // block address -> id
    n_alloc: usize,
}
struct W {
    rcs: Vec<(Rc<N>, P)>,
    weaks: Vec<(Weak<N>, P)>,
    cells: Vec<(AtomicRc<N>, P)>,
    wcells: Vec<(AtomicWeak<N>, P)>,
    m: Model,
    rng: StdRng,
    hold: Option<(Rc<N>, P)>,
}
fn addr_of<X: std::fmt::Pointer>(x: &X) -> usize {
    usize::from_str_radix(format!("{:p}", *x).trim_start_matches("0x"), 16).unwrap()
}
impl W {
    fn newobj(&mut self) -> N {
        let id = self.m.n_alloc;
        self.m.n_alloc += 1;
        self.m.next.insert(id, (None, 0));
        self.m.back.insert(id, (None, 0));
        N { id, next: AtomicRc::null(), back: AtomicWeak::null() }
    }
    fn reg(&mut self, rc: &Rc<N>) -> usize {
        let id = rc.as_ref().unwrap().id;
        self.m.addr.insert(addr_of(rc), id);
        id
    }
    fn chk_rc(&self, rc: &Rc<N>, p: P) {
        assert_eq!(rc.as_ref().map(|n| n.id), p.0);
        assert_eq!(rc.tag(), p.1);
        assert_eq!(rc.is_null(), p.0.is_none());
    }
    fn chk_snap(&self, s: Snapshot<'_, N>, p: P) {
        assert_eq!(s.as_ref().map(|n| n.id), p.0);
        assert_eq!(s.tag(), p.1);
    }
    fn id_of_addr(&self, a: usize) -> Option<usize> {
        if a == 0 { None } else { Some(*self.m.addr.get(&a).expect("unknown address")) }
    }
    fn chk_weak(&self, w: &Weak<N>, p: P) {
        assert_eq!(self.id_of_addr(addr_of(w)), p.0);
        assert_eq!(w.tag(), p.1);
        assert_eq!(w.is_null(), p.0.is_none());
    }
    fn chk_wsnap(&self, w: WeakSnapshot<'_, N>, p: P) {
        assert_eq!(self.id_of_addr(addr_of(&w)), p.0);
        assert_eq!(w.tag(), p.1);
    }
    fn alive_set(&self) -> HashSet<usize> {
        let mut st: Vec<usize> = Vec::new();
        for (_, p) in &self.rcs { if let Some(i) = p.0 { st.push(i) } }
        for (_, p) in &self.cells { if let Some(i) = p.0 { st.push(i) } }
        let mut seen = HashSet::new();
        while let Some(i) = st.pop() {
            if seen.insert(i) {
                if let Some(j) = self.m.next[&i].0 { st.push(j) }
            }
        }
        seen
    }
    fn check_alive(&self) {
        for i in self.alive_set() {
            assert!(!is_dropped(i), "object {} dropped while reachable", i);
        }
    }
    fn rounds(&self, n: usize) {
        for _ in 0..n { let g = cs(); g.flush(); }
    }
    // pick a strong cell: either standalone or the next field of a node we hold an Rc to.
    // returns (kind, index): kind 0 standalone idx, kind 1 rc idx
    fn pick_cell(&mut self) -> Option<(u8, usize)> {
        let nn: Vec<usize> = self.rcs.iter().enumerate().filter(|(_, (_, p))| p.0.is_some()).map(|(i, _)| i).collect();
        if self.rng.gen_bool(0.5) && !self.cells.is_empty() {
            Some((0, self.rng.gen_range(0..self.cells.len())))
        } else if !nn.is_empty() {
            { let i = *nn.choose(&mut self.rng).unwrap(); self.hold = Some(self.rcs.swap_remove(i)); Some((1, 0)) }
        } else if !self.cells.is_empty() {
            Some((0, self.rng.gen_range(0..self.cells.len())))
        } else { None }
    }
    fn cell_model(&mut self, c: (u8, usize)) -> &mut P {
        if c.0 == 0 { &mut self.cells[c.1].1 } else { let id = self.hold.as_ref().unwrap().1 .0.unwrap(); self.m.next.get_mut(&id).unwrap() }
    }
    fn wcell_model(&mut self, c: (u8, usize)) -> &mut P {
        if c.0 == 0 { &mut self.wcells[c.1].1 } else { let id = self.hold.as_ref().unwrap().1 .0.unwrap(); self.m.back.get_mut(&id).unwrap() }
    }
    // may `obj` be stored into cell c without creating a cycle? (only into standalone, or node with smaller id)
    fn ok_store(&self, c: (u8, usize), p: P) -> bool {
        if c.0 == 0 { return true; }
        match p.0 { None => true, Some(j) => self.hold.as_ref().unwrap().1 .0.unwrap() < j }
    }
    fn take_rc(&mut self) -> (Rc<N>, P) {
        if self.rcs.is_empty() || self.rng.gen_bool(0.2) {
            if self.rng.gen_bool(0.3) { return (Rc::null().with_tag(self.rng.gen_range(0..3)), (None, 0)).fix(); }
            let o = self.newobj();
            let rc = Rc::new(o);
            let id = self.reg(&rc);
            return (rc, (Some(id), 0));
        }
        let i = self.rng.gen_range(0..self.rcs.len());
        self.rcs.swap_remove(i)
    }
    fn take_weak(&mut self) -> (Weak<N>, P) {
        if self.weaks.is_empty() || self.rng.gen_bool(0.2) {
            return (Weak::null(), (None, 0));
        }
        let i = self.rng.gen_range(0..self.weaks.len());
        self.weaks.swap_remove(i)
    }
}
trait Fix { fn fix(self) -> Self; }
impl Fix for (Rc<N>, P) {
    fn fix(mut self) -> Self { self.1 .1 = self.0.tag(); self }
}

fn step(w: &mut W) {
    step_inner(w);
    if let Some(h) = w.hold.take() { w.rcs.push(h); }
}
fn step_inner(w: &mut W) {
    let op = w.rng.gen_range(0..40);
    match op {
        0 => { let o = w.newobj(); let rc = Rc::new(o); let id = w.reg(&rc); w.rcs.push((rc, (Some(id), 0))); }
        1 => {
            let o = w.newobj(); let a = Rc::new_many::<3>(o); let id = w.reg(&a[0]);
            for r in a { w.rcs.push((r, (Some(id), 0))); }
        }
        2 => {
            let o = w.newobj(); let id_expect = o.id; let cnt = w.rng.gen_range(0..5usize);
            let mut it = Rc::new_many_iter(o, cnt);
            let k = w.rng.gen_range(0..=cnt);
            for _ in 0..k { let r = it.next().unwrap(); let id = w.reg(&r); assert_eq!(id, id_expect); w.rcs.push((r, (Some(id), 0))); }
            if k == cnt { assert!(it.next().is_none()); }
            if w.rng.gen_bool(0.5) { drop(it) } else { let g = cs(); it.abort(&g); }
        }
        3 => { if !w.rcs.is_empty() { let i = w.rng.gen_range(0..w.rcs.len()); let c = w.rcs[i].0.clone(); let p = w.rcs[i].1; w.chk_rc(&c, p); w.rcs.push((c, p)); } }
        4 | 5 => { if !w.rcs.is_empty() { let (r, p) = w.take_rc(); w.chk_rc(&r, p); if w.rng.gen_bool(0.5) { drop(r) } else { let g = cs(); r.finalize(&g) } } }
        6 => { if !w.rcs.is_empty() { let (r, p) = w.take_rc(); let t = w.rng.gen_range(0..16usize); let r = r.with_tag(t); let p = (p.0, t & 7); w.chk_rc(&r, p); w.rcs.push((r, p)); } }
        7 => { if !w.rcs.is_empty() { let i = w.rng.gen_range(0..w.rcs.len()); let wk = w.rcs[i].0.downgrade(); let p = w.rcs[i].1; w.chk_weak(&wk, p); w.weaks.push((wk, p)); } }
        8 => { if !w.rcs.is_empty() { let i = w.rng.gen_range(0..w.rcs.len()); let a = w.rcs[i].0.weak_many::<2>(); let p = w.rcs[i].1; for wk in a { w.chk_weak(&wk, p); w.weaks.push((wk, p)); } } }
        9 => { if !w.weaks.is_empty() { let i = w.rng.gen_range(0..w.weaks.len()); let c = w.weaks[i].0.clone(); let p = w.weaks[i].1; w.chk_weak(&c, p); w.weaks.push((c, p)); } }
        10 | 11 => { if !w.weaks.is_empty() { let (wk, _) = w.take_weak(); drop(wk); } }
        12 => {
            if !w.weaks.is_empty() {
                let i = w.rng.gen_range(0..w.weaks.len()); let p = w.weaks[i].1;
                let up = w.weaks[i].0.upgrade();
                match p.0 {
                    None => { let r = up.unwrap(); w.chk_rc(&r, p); }
                    Some(id) => {
                        if is_dropped(id) || POPPED.lock().unwrap().as_ref().unwrap().contains(&id) { assert!(up.is_none()); }
                        else { let r = up.expect("upgrade must succeed"); w.chk_rc(&r, p); w.rcs.push((r, p)); }
                    }
                }
            }
        }
        13 => { let (r, p) = w.take_rc(); let c = AtomicRc::from(r); w.cells.push((c, p)); }
        14 => { if !w.rcs.is_empty() { let i = w.rng.gen_range(0..w.rcs.len()); let c = AtomicRc::from(&w.rcs[i].0); let p = w.rcs[i].1; w.cells.push((c, p)); } }
        15 => { if !w.cells.is_empty() { let i = w.rng.gen_range(0..w.cells.len()); let (c, _) = w.cells.swap_remove(i); drop(c); } }
        16 => { if !w.cells.is_empty() { let i = w.rng.gen_range(0..w.cells.len()); let r = w.cells[i].0.take(); let p = std::mem::replace(&mut w.cells[i].1, (None, 0)); w.chk_rc(&r, p); w.rcs.push((r, p)); } }
        17 | 18 => {
            // store / swap
            if let Some(c) = w.pick_cell() {
                let (r, p) = w.take_rc();
                if !w.ok_store(c, p) { w.rcs.push((r, p)); return; }
                let old = *w.cell_model(c);
                let g = cs();
                let cell: &AtomicRc<N> = if c.0 == 0 { &w.cells[c.1].0 } else { &w.hold.as_ref().unwrap().0.as_ref().unwrap().next };
                let cell: &AtomicRc<N> = unsafe { &*(cell as *const _) };
                if op == 17 { cell.store(r, SeqCst, &g); } else { let o = cell.swap(r, SeqCst); w.chk_rc(&o, old); w.rcs.push((o, old)); }
                *w.cell_model(c) = p;
                let s = cell.load(SeqCst, &g); w.chk_snap(s, p);
            }
        }
        19..=24 => {
            // compare_exchange / weak / tag
            if let Some(c) = w.pick_cell() {
                let cur = *w.cell_model(c);
                let g = cs();
                let cell: &AtomicRc<N> = if c.0 == 0 { &w.cells[c.1].0 } else { &w.hold.as_ref().unwrap().0.as_ref().unwrap().next };
                let cell: &AtomicRc<N> = unsafe { &*(cell as *const _) };
                // expected: the loaded value, or loaded with a different tag, or a snapshot of a random rc, or another cell's content
                let (exp, ep): (Snapshot<N>, P) = match w.rng.gen_range(0..4) {
                    0 | 1 => (cell.load(SeqCst, &g), cur),
                    2 => { let t = w.rng.gen_range(0..3usize); (cell.load(SeqCst, &g).with_tag(t), (cur.0, t)) }
                    _ => if w.rcs.is_empty() { (Snapshot::null(), (None, 0)) } else { let i = w.rng.gen_range(0..w.rcs.len()); (unsafe { &*(&w.rcs[i].0 as *const Rc<N>) }.snapshot(&g), w.rcs[i].1) },
                };
                w.chk_snap(exp, ep);
                if op >= 23 {
                    let t = w.rng.gen_range(0..16usize);
                    match cell.compare_exchange_tag(exp, t, SeqCst, SeqCst, &g) {
                        Ok(prev) => { assert_eq!(ep, cur); w.chk_snap(prev, cur); *w.cell_model(c) = (cur.0, t & 7); }
                        Err(e) => { assert_ne!(ep, cur); w.chk_snap(e.current, cur); w.chk_snap(e.desired, (ep.0, t & 7)); }
                    }
                } else {
                    let (r, p) = w.take_rc();
                    if !w.ok_store(c, p) { w.rcs.push((r, p)); return; }
                    let res = if op % 2 == 0 { cell.compare_exchange(exp, r, SeqCst, SeqCst, &g) } else { cell.compare_exchange_weak(exp, r, SeqCst, SeqCst, &g) };
                    match res {
                        Ok(prev) => { COV[0].fetch_add(1, SeqCst); assert_eq!(ep, cur, "CAS succeeded though expected != current"); w.chk_rc(&prev, cur); w.rcs.push((prev, cur)); *w.cell_model(c) = p; }
                        Err(e) => { COV[1].fetch_add(1, SeqCst); assert_ne!(ep, cur, "CAS failed though expected == current"); w.chk_snap(e.current, cur); w.chk_rc(&e.desired, p); w.rcs.push((e.desired, p)); }
                    }
                }
                let now = *w.cell_model(c);
                let s = cell.load(SeqCst, &g); w.chk_snap(s, now);
                // counted / downgrade
                if w.rng.gen_bool(0.3) { let r = s.counted(); w.chk_rc(&r, now); w.rcs.push((r, now)); }
                if w.rng.gen_bool(0.3) { let wk: Weak<N> = s.into(); w.chk_weak(&wk, now); w.weaks.push((wk, now)); }
                if w.rng.gen_bool(0.2) { let r: Rc<N> = s.into(); w.rcs.push((r, now)); }
            }
        }
        25 => { let (wk, p) = w.take_weak(); w.wcells.push((AtomicWeak::from(wk), p)); }
        26 => { if !w.rcs.is_empty() { let i = w.rng.gen_range(0..w.rcs.len()); let c = AtomicWeak::from(&w.rcs[i].0); let p = w.rcs[i].1; w.wcells.push((c, p)); } }
        27 => { if !w.wcells.is_empty() { let i = w.rng.gen_range(0..w.wcells.len()); let (c, _) = w.wcells.swap_remove(i); drop(c); } }
        28 => { if !w.wcells.is_empty() { let i = w.rng.gen_range(0..w.wcells.len()); let (wk, p) = w.take_weak(); let old = std::mem::replace(w.wcells[i].0.get_mut(), wk); let op_ = std::mem::replace(&mut w.wcells[i].1, p); w.chk_weak(&old, op_); w.weaks.push((old, op_)); } }
        29..=36 => {
            // weak cell ops
            let nn: Vec<usize> = w.rcs.iter().enumerate().filter(|(_, (_, p))| p.0.is_some()).map(|(i, _)| i).collect();
            let c = if w.rng.gen_bool(0.5) && !w.wcells.is_empty() { (0u8, w.rng.gen_range(0..w.wcells.len())) } else if !nn.is_empty() { let i = *nn.choose(&mut w.rng).unwrap(); w.hold = Some(w.rcs.swap_remove(i)); (1u8, 0) } else { return };
            let cur = *w.wcell_model(c);
            let g = cs();
            let cell: &AtomicWeak<N> = if c.0 == 0 { &w.wcells[c.1].0 } else { &w.hold.as_ref().unwrap().0.as_ref().unwrap().back };
            let cell: &AtomicWeak<N> = unsafe { &*(cell as *const _) };
            let ld = cell.load(SeqCst, &g); w.chk_wsnap(ld, cur);
            match op {
                29 => { let (wk, p) = w.take_weak(); cell.store(wk, SeqCst, &g); *w.wcell_model(c) = p; }
                30 => { let (wk, p) = w.take_weak(); let o = cell.swap(wk, SeqCst); w.chk_weak(&o, cur); w.weaks.push((o, cur)); *w.wcell_model(c) = p; }
                31 | 32 | 33 | 34 => {
                    let (exp, ep): (WeakSnapshot<N>, P) = match w.rng.gen_range(0..4) {
                        0 | 1 => (ld, cur),
                        2 => { let t = w.rng.gen_range(0..3usize); (ld.with_tag(t), (cur.0, t)) }
                        _ => if w.weaks.is_empty() { (WeakSnapshot::null(), (None, 0)) } else { let i = w.rng.gen_range(0..w.weaks.len()); (unsafe { &*(&w.weaks[i].0 as *const Weak<N>) }.snapshot(&g), w.weaks[i].1) },
                    };
                    if op == 34 {
                        let t = w.rng.gen_range(0..16usize);
                        match cell.compare_exchange_tag(exp, t, SeqCst, SeqCst, &g) {
                            Ok(prev) => { assert_eq!(ep, cur); w.chk_wsnap(prev, cur); *w.wcell_model(c) = (cur.0, t & 7); }
                            Err(e) => { assert_ne!(ep, cur); w.chk_wsnap(e.current, cur); w.chk_wsnap(e.desired, (ep.0, t & 7)); }
                        }
                    } else {
                        let (wk, p) = w.take_weak();
                        let res = if op % 2 == 0 { cell.compare_exchange(exp, wk, SeqCst, SeqCst, &g) } else { cell.compare_exchange_weak(exp, wk, SeqCst, SeqCst, &g) };
                        match res {
                            Ok(prev) => { COV[4].fetch_add(1, SeqCst); assert_eq!(ep, cur); w.chk_weak(&prev, cur); w.weaks.push((prev, cur)); *w.wcell_model(c) = p; }
                            Err(e) => { assert_ne!(ep, cur); w.chk_wsnap(e.current, cur); w.chk_weak(&e.desired, p); w.weaks.push((e.desired, p)); }
                        }
                    }
                }
                35 => {
                    // upgrade of weak snapshot
                    let up = ld.upgrade();
                    match cur.0 {
                        None => { w.chk_snap(up.unwrap(), cur); }
                        Some(id) => {
                            if POPPED.lock().unwrap().as_ref().unwrap().contains(&id) { COV[2].fetch_add(1, SeqCst); assert!(up.is_none()); }
                            else {
                                COV[3].fetch_add(1, SeqCst); let s = up.expect("ws upgrade must succeed"); w.chk_snap(s, cur);
                                if w.rng.gen_bool(0.5) { let r = s.counted(); w.rcs.push((r, cur)); }
                                else if w.rng.gen_bool(0.5) { let wk = s.downgrade().counted(); w.weaks.push((wk, cur)); }
                            }
                        }
                    }
                }
                _ => { let wk = ld.counted(); w.chk_weak(&wk, cur); w.weaks.push((wk, cur)); let wk2: Weak<N> = ld.into(); w.weaks.push((wk2, cur)); }
            }
        }
        37 => { let n = w.rng.gen_range(1..6); w.rounds(n); }
        _ => {}
    }
}

fn run(seed: u64, steps: usize) {
    *DROPPED.lock().unwrap() = Some(HashSet::new());
    *POPPED.lock().unwrap() = Some(HashSet::new());
    DEALLOCS.store(0, SeqCst);
    let mut w = W { rcs: vec![], weaks: vec![], cells: vec![], wcells: vec![], m: Model::default(), rng: StdRng::seed_from_u64(seed), hold: None };
    for _ in 0..steps {
        step(&mut w);
        w.check_alive();
        // bound the pools
        while w.rcs.len() > 12 { let (r, _) = w.take_rc(); drop(r); }
        while w.weaks.len() > 12 { let (x, _) = w.take_weak(); drop(x); }
        while w.cells.len() > 6 { w.cells.pop(); }
        while w.wcells.len() > 6 { w.wcells.pop(); }
    }
    let n = w.m.n_alloc;
    w.rcs.clear(); w.cells.clear(); w.rounds(40);
    // all objects destructed although weak refs remain
    assert_eq!(DROPPED.lock().unwrap().as_ref().unwrap().len(), n, "seed {}: not all destructed", seed);
    w.weaks.clear(); w.wcells.clear(); w.rounds(40);
    assert_eq!(DEALLOCS.load(SeqCst), n, "seed {}: blocks leaked or double freed", seed);
}

#[test]
fn model() {
    circ::verif::set_event_hook(Some(ev));
    for seed in 0..2000 {
        run(seed, 600);
    }
    println!("cov {:?}", COV);
}
