// Demonstration for finding 1 (C02 / C12): the `Modular` window of a `dispose_general_node`
// frame goes stale while the frame's subtree is being disposed (the disposal re-pins the thread
// every 128 nodes, so the global epoch can advance arbitrarily far during one frame). A fresh
// stamp on a later child is then classified as the *oldest* value, overwritten with the parent's
// old stamp, and the child is destructed immediately although another thread still holds a
// Snapshot of it inside a live critical section.
//
// Copy to tests/demo_1.rs and run (fails on the unmodified tree, deterministically):
//
//   RUSTFLAGS="--cfg circ_verif" CARGO_TARGET_DIR=/tmp/audit-c/target \
//       cargo test --offline --test demo_1 -- --nocapture
//
// Object graph:   root --> c0 --> c1 --> ... --> c599        (first edge of root: a chain)
//                 root --> R  <-- S (a shared AtomicRc)       (second edge of root)
//
// Thread A drops `root` and runs collection rounds until it disposes it. While A walks the chain
// (root's frame is suspended in its `for next in outgoings` loop), thread B performs ordinary
// collection rounds `{ let g = cs(); g.flush(); }`; thanks to A's re-pins every 128 nodes the
// global epoch moves from E0 (the value root's frame read) to E0+4. When A comes back to root's
// frame and is about to decrement R, B does, inside ONE critical section:
//      let g = cs(); let snap = S.load(&g); drop(S.swap(Rc::null()));
// which leaves R with strong = 1 (root's edge) and stamp E0+4. A then decrements R using the
// window anchored at E0+1, in which E0+4 wraps around to "oldest"; R is stamped with root's old
// stamp and destructed on the spot, while B's guard `g` and Snapshot `snap` are still alive.

use circ::verif::{self, site};
use circ::{cs, AtomicRc, Rc, RcObject};
use std::cell::Cell;
use std::sync::atomic::{AtomicBool, AtomicUsize, Ordering::SeqCst};
use std::sync::Arc;

const CHAIN: usize = 600;
const R_ID: usize = 10_000;
const ROOT_ID: usize = 20_000;

static DROPPED_R: AtomicBool = AtomicBool::new(false);
static CHAIN_DONE: AtomicBool = AtomicBool::new(false);
static PRE_R_DONE: AtomicBool = AtomicBool::new(false);
static ARMED: AtomicBool = AtomicBool::new(false);
static A_DONE: AtomicBool = AtomicBool::new(false);
static HITS: AtomicUsize = AtomicUsize::new(0);
static E0: AtomicUsize = AtomicUsize::new(0);
static KIND: AtomicUsize = AtomicUsize::new(0);
static REQ: AtomicUsize = AtomicUsize::new(0);
static ACK: AtomicUsize = AtomicUsize::new(0);

thread_local! {
    static IS_A: Cell<bool> = const { Cell::new(false) };
}

struct Node {
    id: usize,
    next: Vec<AtomicRc<Node>>,
}

unsafe impl RcObject for Node {
    fn pop_edges(&mut self, out: &mut Vec<Rc<Self>>) {
        for a in self.next.iter_mut() {
            out.push(a.take());
        }
    }
}

impl Drop for Node {
    fn drop(&mut self) {
        if self.id == CHAIN - 1 {
            CHAIN_DONE.store(true, SeqCst);
        }
        if self.id == R_ID {
            DROPPED_R.store(true, SeqCst);
        }
    }
}

/// One ordinary collection round.
fn round() {
    let g = cs();
    g.flush();
}

/// A asks B to do something and waits until it is done.
fn request(kind: usize) {
    KIND.store(kind, SeqCst);
    let r = REQ.fetch_add(1, SeqCst) + 1;
    while ACK.load(SeqCst) < r {
        std::thread::yield_now();
    }
}

fn hook(s: u32) {
    if !IS_A.try_with(|c| c.get()).unwrap_or(false) || !ARMED.load(SeqCst) {
        return;
    }
    if s == site::CASC_STATE {
        let n = HITS.fetch_add(1, SeqCst) + 1;
        if n == 1 {
            // Root's frame: it reads `curr_epoch` right after this point (B is idle).
            E0.store(verif::global_epoch(), SeqCst);
        } else if !CHAIN_DONE.load(SeqCst) {
            // Inside the chain: let B try one collection round.
            request(1);
        }
    } else if s == site::CASC_LOAD && CHAIN_DONE.load(SeqCst) && !PRE_R_DONE.swap(true, SeqCst) {
        // Back in root's frame, about to decrement R.
        request(2);
    }
}

#[test]
fn snapshot_destructed_inside_its_critical_section() {
    verif::set_yield_hook(Some(hook));
    let s: Arc<AtomicRc<Node>> = Arc::new(AtomicRc::null());

    let s_b = s.clone();
    let b = std::thread::spawn(move || {
        let _ = cs(); // register
        let mut served = 0;
        // Serve A's requests.
        let (g, r_epoch) = loop {
            while REQ.load(SeqCst) == served {
                std::thread::yield_now();
            }
            served += 1;
            match KIND.load(SeqCst) {
                1 => {
                    if verif::global_epoch() < E0.load(SeqCst) + 4 {
                        round();
                    }
                    ACK.store(served, SeqCst);
                }
                _ => {
                    let g = cs();
                    break (g, verif::global_epoch());
                }
            }
        };
        // One critical section: load a Snapshot of R, then unlink R from S and drop that Rc.
        let snap = s_b.load(SeqCst, &g);
        assert!(!snap.is_null());
        drop(s_b.swap(Rc::null(), SeqCst));
        let counts = unsafe { verif::snapshot_counts(&snap) }.unwrap();
        println!(
            "B: pinned at epoch {} (root frame read E0 = {}), R counts after unlink = {:?}",
            r_epoch,
            E0.load(SeqCst),
            counts
        );
        assert_eq!(counts.0, 1, "only root's edge is left");
        ACK.store(served, SeqCst);

        // A finishes disposing root (and everything else it wants to do).
        while !A_DONE.load(SeqCst) {
            std::thread::yield_now();
        }
        // `g` is still alive, so `snap` must still refer to a live object (C02).
        let dropped = DROPPED_R.load(SeqCst);
        println!(
            "B: guard still alive, global epoch {}, R destructed = {}",
            verif::global_epoch(),
            dropped
        );
        assert!(
            !dropped,
            "C02 violated: R was destructed while a Snapshot of it is inside a live critical section"
        );
        let _ = snap.as_ref().map(|n| n.id);
        drop(g);
    });

    let a = std::thread::Builder::new()
        .stack_size(64 << 20)
        .spawn(move || {
            IS_A.with(|c| c.set(true));
            // Stay away from the very first epochs, and choose the alignment modulo 16 such that
            // the stamp 0 of never-decremented objects counts as old during the whole test
            // (root will be dropped at epoch 49 and disposed at E0 = 52).
            while verif::global_epoch() < 47 {
                round();
            }
            let root = {
                let g = cs();
                let link = |rc: Rc<Node>| {
                    let a = AtomicRc::null();
                    a.store(rc, SeqCst, &g);
                    a
                };
                let mut next: Rc<Node> = Rc::null();
                for id in (0..CHAIN).rev() {
                    let mut n = Node { id, next: vec![] };
                    if !next.is_null() {
                        n.next.push(link(next));
                    }
                    next = Rc::new(n);
                }
                let r = Rc::new(Node {
                    id: R_ID,
                    next: vec![],
                });
                s.store(r.clone(), SeqCst, &g);
                Rc::new(Node {
                    id: ROOT_ID,
                    next: vec![link(next), link(r)],
                })
            };
            round();
            round();
            ARMED.store(true, SeqCst);
            drop(root);
            // Three rounds: the third one pops the bag with `try_destruct(root)`.
            for _ in 0..3 {
                round();
            }
            println!(
                "A: dispose_general_node calls seen = {}, E0 = {}, global epoch now {}",
                HITS.load(SeqCst),
                E0.load(SeqCst),
                verif::global_epoch()
            );
            if !CHAIN_DONE.load(SeqCst) || !PRE_R_DONE.load(SeqCst) {
                A_DONE.store(true, SeqCst);
                REQ.fetch_add(1, SeqCst);
                KIND.store(2, SeqCst);
            }
            assert!(CHAIN_DONE.load(SeqCst), "the chain was not disposed by A");
            assert!(PRE_R_DONE.load(SeqCst));
            ARMED.store(false, SeqCst);
            A_DONE.store(true, SeqCst);
        })
        .unwrap();

    a.join().unwrap();
    b.join().unwrap();
}
