// Demonstration for finding 3 (C16): `Local::unpin` reads `guard_count` BEFORE it runs the
// collection loop (which executes arbitrary user destructors) and writes `guard_count - 1` from
// that stale value afterwards. A guard that is created by a destructor during the collection and
// outlives it (stashed in a thread-local here; `mem::forget(cs())` has the same effect) is not
// counted any more: the thread is unpinned (announced epoch cleared, guard count 0) although a
// live guard exists, and dropping that guard later underflows the counter.
//
// Copy to tests/demo_3.rs and run (fails on the unmodified tree, deterministically):
//
//   RUSTFLAGS="--cfg circ_verif" CARGO_TARGET_DIR=/tmp/audit-c/target \
//       cargo test --offline --test demo_3 -- --nocapture

use circ::verif;
use circ::{cs, Guard, Rc, RcObject};
use std::cell::RefCell;

thread_local! {
    static STASH: RefCell<Option<Guard>> = const { RefCell::new(None) };
}

struct Node;

unsafe impl RcObject for Node {
    fn pop_edges(&mut self, _: &mut Vec<Rc<Self>>) {}
}

impl Drop for Node {
    fn drop(&mut self) {
        // Enter a critical section that is meant to outlive the destructor.
        STASH.with(|s| *s.borrow_mut() = Some(cs()));
    }
}

#[test]
fn guard_created_in_destructor_is_forgotten_by_unpin() {
    drop(Rc::new(Node));
    // Collection rounds until the destructor has run (inside `unpin` of the round's guard).
    for _ in 0..8 {
        let g = cs();
        g.flush();
        drop(g);
        if STASH.with(|s| s.borrow().is_some()) {
            break;
        }
    }
    assert!(STASH.with(|s| s.borrow().is_some()), "destructor did not run");
    // A guard is alive, so the thread must be pinned with a guard count of 1.
    let (announced, guards, handles) = verif::local_state().unwrap();
    println!(
        "live guard in STASH; local state: announced = {announced:#x} (bit 0 = pinned), \
         guard count = {guards}, handle count = {handles}"
    );
    let pinned = announced & 1 == 1;
    // Dropping the guard must work, too (underflows `guard_count` in `unpin`).
    let r = std::panic::catch_unwind(|| STASH.with(|s| drop(s.borrow_mut().take())));
    println!("dropping the stashed guard: {:?}", r.as_ref().map_err(|_| "panicked"));
    assert!(
        pinned && guards == 1,
        "C16 violated: a guard is alive but the thread is not pinned (guard count {guards})"
    );
    assert!(r.is_ok());
}
