// Demonstration 1: a guard created by a destructor that runs during a collection and that outlives
// that destructor does NOT keep the thread pinned (C16, and through it C02).
//
// `Local::unpin` reads `guard_count` once at its top, then runs the whole collection (arbitrary
// deferred functions / destructors) and finally writes back the *stale* value minus one and
// unpins. If a deferred function created a guard that is still alive (stored in a thread-local,
// a struct, ...), the participant's guard count is reset to 0 and its epoch is cleared although a
// guard is alive.
//
// Run with (from the crate root, file copied to tests/):
//   RUSTFLAGS="--cfg circ_verif" CARGO_TARGET_DIR=/tmp/audit-d/target \
//       cargo test --offline --test demo_1 -- --test-threads=1
//
// Both tests fail on the unmodified tree (debug and --release).

use std::cell::RefCell;
use std::sync::atomic::{AtomicBool, AtomicUsize, Ordering};

use circ::{cs, AtomicRc, Guard, Rc, RcObject};

thread_local! {
    /// A per-thread guard cache: the first user is a destructor.
    static STASH: RefCell<Option<Guard>> = const { RefCell::new(None) };
}

struct Stasher;

unsafe impl RcObject for Stasher {
    fn pop_edges(&mut self, _: &mut Vec<Rc<Self>>) {}
}

impl Drop for Stasher {
    fn drop(&mut self) {
        // Enter a critical section and keep it open after the destructor has returned.
        STASH.with(|s| *s.borrow_mut() = Some(cs()));
    }
}

struct Victim {
    dropped: &'static AtomicBool,
    value: AtomicUsize,
}

unsafe impl RcObject for Victim {
    fn pop_edges(&mut self, _: &mut Vec<Rc<Self>>) {}
}

impl Drop for Victim {
    fn drop(&mut self) {
        self.value.store(0xDEAD, Ordering::SeqCst);
        self.dropped.store(true, Ordering::SeqCst);
    }
}

fn round() {
    let g = cs();
    g.flush();
}

/// Drops a `Stasher` and runs collection rounds until its destructor has stashed a guard.
fn stash_a_guard_from_a_destructor() {
    drop(Rc::new(Stasher));
    for _ in 0..16 {
        round();
        if STASH.with(|s| s.borrow().is_some()) {
            return;
        }
    }
    panic!("the Stasher was never destructed (test set-up problem)");
}

/// Drops the guard taken out of the stash. On the unmodified tree this underflows the guard count
/// ('attempt to subtract with overflow' in debug builds; in release builds the count wraps to
/// usize::MAX and the next cs() on the thread panics), hence the catch_unwind.
fn drop_stashed(guard: Guard) {
    let _ = std::panic::catch_unwind(std::panic::AssertUnwindSafe(move || drop(guard)));
}

#[test]
fn guard_created_in_destructor_keeps_thread_pinned() {
    std::thread::spawn(|| {
        stash_a_guard_from_a_destructor();
        // A guard is alive (it sits in STASH): the thread must be pinned, with one guard.
        let (epoch_word, guards, _handles) = circ::verif::local_state().unwrap();
        drop_stashed(STASH.with(|s| s.borrow_mut().take()).unwrap());
        assert!(
            epoch_word & 1 == 1 && guards == 1,
            "a guard is alive but the participant is unpinned: epoch word {epoch_word:#x}, guard count {guards}"
        );
    })
    .join()
    .unwrap();
}

#[test]
fn snapshot_under_guard_created_in_destructor_is_protected() {
    static DROPPED: AtomicBool = AtomicBool::new(false);
    std::thread::spawn(|| {
        stash_a_guard_from_a_destructor();

        let cell = AtomicRc::new(Victim {
            dropped: &DROPPED,
            value: AtomicUsize::new(42),
        });

        let guard: Guard = STASH.with(|s| s.borrow_mut().take()).unwrap();
        let destructed_under_guard;
        {
            // A snapshot protected by a live guard.
            let snap = cell.load(Ordering::SeqCst, &guard);
            assert_eq!(snap.as_ref().unwrap().value.load(Ordering::SeqCst), 42);

            // Unlink the victim and run collection rounds (on this very thread: they use nested
            // guards, so they must not be able to collect anything while `guard` is alive).
            cell.store(Rc::null(), Ordering::SeqCst, &guard);
            for _ in 0..16 {
                round();
            }
            destructed_under_guard = DROPPED.load(Ordering::SeqCst);
            if !destructed_under_guard {
                assert_eq!(snap.as_ref().unwrap().value.load(Ordering::SeqCst), 42);
            }
        }
        drop_stashed(guard);
        assert!(
            !destructed_under_guard,
            "the object behind a Snapshot was destructed while the guard of the Snapshot is alive"
        );
        // Once the guard is gone the victim is reclaimed.
        for _ in 0..16 {
            round();
        }
        assert!(DROPPED.load(Ordering::SeqCst));
    })
    .join()
    .unwrap();
}
