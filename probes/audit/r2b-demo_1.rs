// demo_1: collections nest without bound on a thread whose participant handle has already been
// destroyed (library used from a thread-local destructor)  ->  stack overflow at thread exit.
// Violates C20 (usable during thread tear-down, "without panicking, deadlocking ...") and C07.
//
// Copy to tests/demo_1.rs and run (no special cfg needed):
//
//   CARGO_TARGET_DIR=/tmp/audit2-b/target cargo test --offline --test demo_1 -- --nocapture
//
// (fails with an assertion: the stack used by the collection grows linearly with the number of
// expired bags in the global queue; with `--release` it fails the same way.)  To see the actual
// crash (SIGSEGV / "has overflowed its stack") instead of the assertion:
//
//   DEMO_CRASH=1 CARGO_TARGET_DIR=/tmp/audit2-b/target cargo test --offline --test demo_1 -- --nocapture
//
// Mechanism: once the thread-local `HANDLE` is gone, every `cs()` registers a *fresh* participant
// (src/ebr_impl/default.rs, `with_handle`).  The guard `dispose()` takes for itself
// (src/utils.rs, `let guard = &cs();`) therefore belongs to a new `Local` whose `collecting` flag
// is clear and whose `guard_count` is 1, although the thread is in the middle of
// `Global::collect` on another `Local`.  If the disposal defers more than 64 functions through
// that guard (here: one `try_dealloc` per WEAKED node of a 70-node chain, `decrement_weak(rc,
// Some(guard))`), the bag overflows, `schedule_collection` sets `must_collect`, and dropping the
// guard at the end of `dispose` runs a complete collection (`Local::unpin`) *inside* the deferred
// function.  That collection pops the next expired bag, whose `try_destruct` does the same, and so
// on: the recursion depth is the number of expired bags in the global queue.
use circ::{cs, AtomicRc, Rc, RcObject};
use std::sync::atomic::{AtomicUsize, Ordering::SeqCst};

static DROPS: AtomicUsize = AtomicUsize::new(0);
static LO: AtomicUsize = AtomicUsize::new(usize::MAX);
static HI: AtomicUsize = AtomicUsize::new(0);

struct Node {
    next: AtomicRc<Node>,
}
unsafe impl RcObject for Node {
    fn pop_edges(&mut self, out: &mut Vec<Rc<Self>>) {
        out.push(self.next.take());
    }
}
impl Drop for Node {
    fn drop(&mut self) {
        DROPS.fetch_add(1, SeqCst);
        // Record where on the stack destructors are called from.
        let probe = 0u8;
        let a = &probe as *const u8 as usize;
        LO.fetch_min(a, SeqCst);
        HI.fetch_max(a, SeqCst);
    }
}

/// A thread-local whose destructor uses the library after the participant handle is gone.
struct Late;
impl Drop for Late {
    fn drop(&mut self) {
        for _ in 0..4 {
            let g = cs();
            g.flush();
        }
    }
}
thread_local! { static LATE: Late = const { Late }; }

const LEN: usize = 70; // > 64 deferrals per disposal

fn backlog(chains: usize) {
    let mut heads = Vec::new();
    {
        let g = cs();
        for _ in 0..chains {
            let mut head: Rc<Node> = Rc::null();
            for _ in 0..LEN {
                let n = Rc::new(Node {
                    next: AtomicRc::null(),
                });
                // A weak pointer existed once: the block is released through a deferred
                // `try_dealloc` when the node is destructed.
                drop(n.downgrade());
                // Give the count word a real epoch stamp (a fresh block carries the stamp 0, which
                // looks recent for some alignments of the epoch counter modulo 16).
                drop(n.clone());
                n.as_ref().unwrap().next.store(head, SeqCst, &g);
                head = n;
            }
            heads.push(head);
        }
    }
    // Let the links age, so that the chains are destructed immediately.
    for _ in 0..6 {
        let g = cs();
        g.flush();
    }
    // One sealed bag per chain, all pushed under one guard (a single collection at its end).
    {
        let g = cs();
        for h in heads {
            h.finalize(&g);
            g.flush();
        }
    }
    // Three more rounds: all those bags expire; each round collects at most 16 of them.
    for _ in 0..3 {
        let g = cs();
        g.flush();
    }
    LO.store(usize::MAX, SeqCst);
    HI.store(0, SeqCst);
}

fn span_kib() -> usize {
    HI.load(SeqCst).saturating_sub(LO.load(SeqCst)) / 1024
}

#[test]
fn collection_nests_in_thread_local_destructor() {
    let crash = std::env::var("DEMO_CRASH").is_ok();
    let chains = if crash { 12_000 } else { 1_500 };

    // Control: the same four rounds on a thread whose handle is alive.
    backlog(chains);
    let before = DROPS.load(SeqCst);
    std::thread::spawn(|| {
        for _ in 0..4 {
            let g = cs();
            g.flush();
        }
    })
    .join()
    .unwrap();
    let control = span_kib();
    eprintln!(
        "control (handle alive):      {} nodes destructed, destructor calls span {} KiB of stack",
        DROPS.load(SeqCst) - before,
        control
    );
    // Clear the backlog.
    for _ in 0..chains {
        let g = cs();
        g.flush();
    }

    backlog(chains);
    let before = DROPS.load(SeqCst);
    std::thread::spawn(|| {
        // Initialise LATE first and the participant handle second: the handle is destroyed
        // first, LATE's destructor runs afterwards.
        LATE.with(|_| ());
        drop(cs());
    })
    .join()
    .unwrap();
    let late = span_kib();
    eprintln!(
        "thread-local destructor:     {} nodes destructed, destructor calls span {} KiB of stack",
        DROPS.load(SeqCst) - before,
        late
    );
    assert!(
        late <= 4 * control + 64,
        "collections nested inside deferred functions: {late} KiB of stack for {chains} pending \
         bags (control: {control} KiB); the depth is proportional to the backlog and overflows \
         the stack for a larger one"
    );
}
