// demo_1: C07 - the recursive disposal (depth cap 1024) overflows a legally configured small stack.
// cp out/demo_1.rs tests/ && CARGO_TARGET_DIR=/tmp/audit2-a/target cargo test --offline --test demo_1
// debug build: aborts (SIGABRT, stack overflow) with the default 256 KiB; passes with STACK_KIB=1024.
// release build (--release): aborts with STACK_KIB=128, passes with 256. CHAIN=200 passes in both (about 1 KiB per recursion level in debug, 150-190 B in release).
use circ::{AtomicRc, Rc, RcObject};
use std::sync::atomic::{AtomicUsize, Ordering::SeqCst};
static DROPS: AtomicUsize = AtomicUsize::new(0);
struct Node { next: AtomicRc<Node> }
unsafe impl RcObject for Node {
    fn pop_edges(&mut self, out: &mut Vec<Rc<Self>>) { out.push(self.next.take()); }
}
impl Drop for Node { fn drop(&mut self) { DROPS.fetch_add(1, SeqCst); } }
fn round() { let g = circ::cs(); g.flush(); }
#[test]
fn small_stack() {
    let kib: usize = std::env::var("STACK_KIB").ok().and_then(|s| s.parse().ok()).unwrap_or(256);
    let n: usize = std::env::var("CHAIN").ok().and_then(|s| s.parse().ok()).unwrap_or(5000);
    let mut head = Rc::<Node>::null();
    for _ in 0..n { head = Rc::new(Node { next: AtomicRc::from(head) }); }
    for _ in 0..8 { round(); }
    let t = std::thread::Builder::new().stack_size(kib * 1024).spawn(move || {
        drop(head);
        for _ in 0..64 { round(); }
    }).unwrap();
    t.join().unwrap();
    for _ in 0..64 { round(); }
    assert_eq!(DROPS.load(SeqCst), n);
}
