// Demonstration 3 (outside the twenty properties, API soundness): `Rc::new` accepts payloads
// that are neither `Send` nor `'static`, but the destructor of the payload is a deferred
// function that any thread may run, at any later time.
//
//   RUSTFLAGS="--cfg circ_verif" CARGO_TARGET_DIR=/tmp/audit2-c/target \
//     cargo test --offline --test demo_3 -- --test-threads=1
//
// FAILS on the unmodified tree: the `!Send` payload is dropped on another thread.

use std::sync::atomic::{AtomicUsize, Ordering::SeqCst};
use std::thread::ThreadId;

use circ::{cs, Rc, RcObject};

static FOREIGN_DROPS: AtomicUsize = AtomicUsize::new(0);
static DROPS: AtomicUsize = AtomicUsize::new(0);

struct NotSend {
    // `std::rc::Rc` has a non-atomic count: dropping it on another thread is a data race.
    _local: std::rc::Rc<u32>,
    owner: ThreadId,
}

unsafe impl RcObject for NotSend {
    fn pop_edges(&mut self, _: &mut Vec<Rc<Self>>) {}
}

impl Drop for NotSend {
    fn drop(&mut self) {
        DROPS.fetch_add(1, SeqCst);
        if std::thread::current().id() != self.owner {
            FOREIGN_DROPS.fetch_add(1, SeqCst);
        }
    }
}

#[test]
fn non_send_payload_is_dropped_on_another_thread() {
    std::thread::spawn(|| {
        let shared = std::rc::Rc::new(7);
        let rc = Rc::new(NotSend {
            _local: shared.clone(),
            owner: std::thread::current().id(),
        });
        // `Rc<NotSend>` is not `Send`, so it stays on this thread - but its destruction does not.
        drop(rc);
        // thread exit pushes the bag to the global queue
    })
    .join()
    .unwrap();
    for _ in 0..8 {
        let g = cs();
        g.flush();
    }
    assert_eq!(DROPS.load(SeqCst), 1);
    assert_eq!(
        FOREIGN_DROPS.load(SeqCst),
        0,
        "a payload that is not Send was dropped by a thread that never owned it"
    );
}
