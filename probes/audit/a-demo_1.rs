// demo_1: C02 violation - a Snapshot's referent is destructed inside the critical section.
//
// Copy to tests/demo_1.rs and run (fails on the unmodified tree, debug and release):
//
//   CARGO_TARGET_DIR=/tmp/audit-a/target RUSTFLAGS="--cfg circ_verif" \
//       cargo test --offline --test demo_1 -- --nocapture
//   CARGO_TARGET_DIR=/tmp/audit-a/target RUSTFLAGS="--cfg circ_verif" \
//       cargo test --offline --release --test demo_1 -- --nocapture
//
// Defect: `dispose_general_node` (src/utils.rs) reads `curr_epoch`, builds the modular window
// `modu = Modular::new(curr_epoch + 1)` and reads `node_epoch` ONCE per frame, and then uses
// them for ALL children of the node.  Between two children the frame recurses into the first
// child's whole subtree, and the recursion re-pins the thread every 128 nodes
// (`repin_without_collect`), so the global epoch may advance arbitrarily far while the frame's
// window stays where it was.  A stamp that another thread puts on the second child at epoch
// `curr_epoch + 3` (or later) lies outside the window [curr_epoch-13, curr_epoch+2], is read as
// the OLDEST value by `modu.max`, and is overwritten with the parent's old stamp.  The child's
// own frame (which reads a fresh epoch) then finds an old stamp and destructs the child
// immediately, although the thread that wrote the fresh stamp is still pinned and holds a
// Snapshot of it.
//
// Scenario (no preemption at a special place is needed; the disposing thread merely has to be
// slow relative to the epoch, which the hook below arranges deterministically):
//
//      A ──left──> C1 -> C2 -> ... -> C400      (chain, only referenced from A)
//      └──right─> B  <── X (an AtomicRc outside)
//
//   D   : drops the last Rc of A, runs collection rounds until try_destruct(A) runs at epoch c;
//         frame(A) reads curr_epoch = c, then descends into the chain (re-pins at node 128, 256).
//   main: helps the epoch to c+3 while D walks the chain, then pins (at c+3), loads a Snapshot
//         of B from X and unlinks B from X (store null: B's count 2 -> 1, stamp c+3).
//   D   : back in frame(A), releases A.right: max{stamp(A), link, c+3} is evaluated in the window
//         of epoch c, yields stamp(A); count 1 -> 0; B is destructed at once.
//   main: is still inside its critical section and its Snapshot of B now dangles.

#![cfg(circ_verif)]

use circ::verif::{self, site};
use circ::{cs, AtomicRc, Rc, RcObject};
use std::cell::Cell;
use std::sync::atomic::{AtomicBool, AtomicUsize, Ordering::SeqCst};

const CHAIN: usize = 400;
const ID_A: usize = CHAIN + 1;
const ID_B: usize = CHAIN + 2;

static DROPPED: [AtomicBool; CHAIN + 3] = [const { AtomicBool::new(false) }; CHAIN + 3];

struct Node {
    id: usize,
    left: AtomicRc<Node>,
    right: AtomicRc<Node>,
}

unsafe impl RcObject for Node {
    fn pop_edges(&mut self, out: &mut Vec<Rc<Self>>) {
        out.push(self.left.take());
        out.push(self.right.take());
    }
}

impl Drop for Node {
    fn drop(&mut self) {
        DROPPED[self.id].store(true, SeqCst);
    }
}

thread_local! {
    static IS_D: Cell<bool> = const { Cell::new(false) };
}

static C_EPOCH: AtomicUsize = AtomicUsize::new(usize::MAX);
static REQ: AtomicUsize = AtomicUsize::new(0);
static ACK: AtomicUsize = AtomicUsize::new(0);
static DONE: AtomicBool = AtomicBool::new(false);

// Called before every instrumented atomic access.  On the disposing thread, at the beginning of
// every `dispose_general_node` frame, hand over to `main` and wait until it answers.
fn hook(s: u32) {
    if s != site::CASC_STATE || !IS_D.try_with(|d| d.get()).unwrap_or(false) {
        return;
    }
    if C_EPOCH.load(SeqCst) == usize::MAX {
        // First frame = the root A; `curr_epoch` is read right after this yield point.
        // Do not let `main` move the epoch before that read.
        C_EPOCH.store(verif::global_epoch(), SeqCst);
        return;
    }
    let r = REQ.fetch_add(1, SeqCst) + 1;
    while ACK.load(SeqCst) < r {
        std::thread::yield_now();
    }
}

fn round() {
    let g = cs();
    g.flush();
}

#[test]
fn snapshot_survives_its_critical_section() {
    // Start in an epoch that is a multiple of 16, so that the initial stamps (0) are accurate.
    while verif::global_epoch() < 32 {
        round();
    }
    let e0 = verif::global_epoch();
    assert_eq!(e0, 32);

    let mut next = Rc::null();
    for id in (1..=CHAIN).rev() {
        next = Rc::new(Node {
            id,
            left: AtomicRc::from(next),
            right: AtomicRc::null(),
        });
    }
    let b = Rc::new(Node {
        id: ID_B,
        left: AtomicRc::null(),
        right: AtomicRc::null(),
    });
    let x = AtomicRc::from(b.clone());
    let a = Rc::new(Node {
        id: ID_A,
        left: AtomicRc::from(next),
        right: AtomicRc::from(b),
    });

    // Let everything become "a few epochs old".
    for _ in 0..4 {
        round();
    }
    assert_eq!(verif::global_epoch(), e0 + 4);

    verif::set_yield_hook(Some(hook));

    let d = std::thread::spawn(move || {
        IS_D.with(|d| d.set(true));
        drop(a);
        for _ in 0..16 {
            round();
            if DROPPED[ID_A].load(SeqCst) {
                break;
            }
        }
        DONE.store(true, SeqCst);
    });

    // Phase 1: while D walks down the chain, help the global epoch forward to c + 3.
    loop {
        assert!(!DONE.load(SeqCst), "set-up failed: disposal ended early");
        let r = REQ.load(SeqCst);
        if r > ACK.load(SeqCst) {
            let c = C_EPOCH.load(SeqCst);
            if verif::global_epoch() < c + 3 {
                round();
            }
            if verif::global_epoch() >= c + 3 {
                break; // D stays parked at the beginning of some chain node's frame.
            }
            ACK.store(r, SeqCst);
        } else {
            std::thread::yield_now();
        }
    }
    let c = C_EPOCH.load(SeqCst);
    assert_eq!(verif::global_epoch(), c + 3);
    assert!(!DROPPED[CHAIN].load(SeqCst), "chain too short");

    // An ordinary reader/unlinker: pin, load a Snapshot of B, unlink B, keep using the Snapshot.
    let guard = cs();
    assert_eq!(verif::local_state().unwrap().0, (c + 3) << 1 | 1);
    let snap = x.load(SeqCst, &guard);
    assert_eq!(snap.as_ref().unwrap().id, ID_B);
    x.store(Rc::null(), SeqCst, &guard);
    let counts = unsafe { verif::snapshot_counts(&snap) }.unwrap();
    println!(
        "c = {c}; main pinned at {}; B after unlink: strong {} stamp {} (= {} mod 16)",
        c + 3,
        counts.0,
        counts.4,
        c + 3
    );
    assert_eq!((counts.0, counts.4 as usize), (1, (c + 3) % 16));

    // Phase 2: let D finish; never advance the epoch again (we could not anyway: we are pinned).
    while !DONE.load(SeqCst) {
        let r = REQ.load(SeqCst);
        if r > ACK.load(SeqCst) {
            ACK.store(r, SeqCst);
        } else {
            std::thread::yield_now();
        }
    }
    d.join().unwrap();
    verif::set_yield_hook(None);

    assert!(DROPPED[ID_A].load(SeqCst) && DROPPED[CHAIN].load(SeqCst));
    println!(
        "global epoch now {}, main still pinned at {}",
        verif::global_epoch(),
        verif::local_state().unwrap().0 >> 1
    );
    // C02: `snap` was loaded under `guard`, which is still alive.
    assert!(
        !DROPPED[ID_B].load(SeqCst),
        "C02 violated: B was destructed while a Snapshot of it is live in an active critical section"
    );
    assert_eq!(snap.as_ref().unwrap().id, ID_B);
    drop(guard);
}
