// demo_2: C07 violation - the recursive disposal overflows the stack of a small-stack thread.
//
// Copy to tests/demo_2.rs and run (aborts with "has overflowed its stack" / SIGABRT on the
// unmodified tree, in debug and in release; no special cfg needed):
//
//   CARGO_TARGET_DIR=/tmp/audit-a/target cargo test --offline --test demo_2 -- --nocapture
//   CARGO_TARGET_DIR=/tmp/audit-a/target cargo test --offline --release --test demo_2 -- --nocapture
//
// Defect: `dispose_general_node` (src/utils.rs) recurses once per node and only stops at
// `depth >= 1024`.  One level costs roughly 150-200 bytes of stack in a release build and more
// than 500 bytes in a debug build (measured: a chain needs > 128 KiB in release, > 512 KiB in
// debug), plus whatever `pop_edges`/`Drop` of the user's type need.  The depth limit is a
// constant that does not take the available stack into account, so a thread created with a
// small (but perfectly legal and, for the thread's own work, sufficient) stack aborts the
// process.  Worse, the victim need not have anything to do with the long structure: the
// disposal runs on whichever thread happens to run the collection that pops the bag.
//
// Here: `main` drops a 5000-node list; a 128 KiB thread that only enters and leaves critical
// sections picks up the garbage and dies.

use circ::{cs, AtomicRc, Rc, RcObject};
use std::sync::atomic::{AtomicUsize, Ordering::SeqCst};

static DROPS: AtomicUsize = AtomicUsize::new(0);

struct Node {
    next: AtomicRc<Node>,
}

unsafe impl RcObject for Node {
    fn pop_edges(&mut self, out: &mut Vec<Rc<Self>>) {
        out.push(self.next.take());
    }
}

impl Drop for Node {
    fn drop(&mut self) {
        DROPS.fetch_add(1, SeqCst);
    }
}

fn round() {
    let g = cs();
    g.flush();
}

#[test]
fn small_stack_thread_survives_collection() {
    const N: usize = 5000;
    const STACK: usize = 128 * 1024;

    // Move away from epoch 0 so that the initial stamps (0) of the nodes look old.
    for _ in 0..40 {
        round();
    }
    let mut head = Rc::null();
    for _ in 0..N {
        head = Rc::new(Node {
            next: AtomicRc::from(head),
        });
    }
    for _ in 0..5 {
        round();
    }
    // The last reference goes away on the main thread (8 MiB stack); the deferred destruction
    // is handed to the global queue.
    {
        let g = cs();
        head.finalize(&g);
        g.flush();
    }

    let h = std::thread::Builder::new()
        .stack_size(STACK)
        .spawn(|| {
            // This thread never touches the list. It merely helps with reclamation.
            for _ in 0..40 {
                round();
            }
        })
        .unwrap();
    h.join().unwrap();
    for _ in 0..40 {
        round();
    }
    assert_eq!(DROPS.load(SeqCst), N);
}
