// Demonstration 4 (C20 / robustness of collections after thread tear-down): unbounded recursion
// try_advance -> registry scan -> IsElement::finalize -> defer_destroy -> Local::defer ->
// incr_advance -> try_advance -> ... One level is added per 64 registry entries that are pending
// removal, so the recursion depth is (number of exited participants not yet unlinked) / 64.
//
// Such entries pile up easily through the very feature C20 is about: once a thread's own
// participant handle has been destroyed, *every* cs() / Rc::drop / Weak::drop made by a later
// thread-local destructor registers a temporary participant and immediately marks it deleted.
// A thread-local container of N counted pointers that is destroyed after HANDLE therefore leaves
// N deleted registry entries behind, and the next collection - by whatever thread happens to run
// one - recurses N/64 levels deep and overflows its stack.
//
// Run with (from the crate root, file copied to tests/):
//   RUSTFLAGS="--cfg circ_verif" CARGO_TARGET_DIR=/tmp/audit-d/target \
//       cargo test --offline --test demo_4 -- --test-threads=1
// (also --release). Environment: BURST = number of references released by the thread-local
// destructor (default 60000), STACK_KB = stack of the thread that runs the next collection
// (default 64). The process dies with "has overflowed its stack" (SIGABRT).
// Measured stack need of that one collection: about 12.7 KiB (debug) / 2 KiB (release) per 1000
// pending entries, i.e. 200000 entries overflow a default 2 MiB thread in a debug build.
// (`--cfg circ_verif` is only needed for the sanity check that HANDLE is already gone.)

use std::cell::RefCell;

use circ::{cs, Rc, RcObject};

struct Item;
unsafe impl RcObject for Item {
    fn pop_edges(&mut self, _: &mut Vec<Rc<Self>>) {}
}

struct Cache(RefCell<Vec<Rc<Item>>>);

impl Drop for Cache {
    fn drop(&mut self) {
        // HANDLE (first used after CACHE was initialised) has already been destroyed.
        assert!(circ::verif::local_state().is_none());
        // Dropping the vector drops every Rc: each drop enters a critical section through a
        // temporary participant, which is registered and marked deleted right away.
        self.0.borrow_mut().clear();
    }
}

thread_local! {
    static CACHE: Cache = const { Cache(RefCell::new(Vec::new())) };
}

fn env(name: &str, default: usize) -> usize {
    std::env::var(name)
        .ok()
        .and_then(|s| s.parse().ok())
        .unwrap_or(default)
}

#[test]
fn collection_after_thread_local_cache_teardown() {
    let burst = env("BURST", 60_000);
    let stack_kb = env("STACK_KB", 64);

    // The thread that will run the next collection. (Created first, so that glibc cannot hand it
    // the cached - larger - stack of the exited worker.)
    let (tx, rx) = std::sync::mpsc::channel::<()>();
    let collector = std::thread::Builder::new()
        .stack_size(stack_kb * 1024)
        .spawn(move || {
            rx.recv().unwrap();
            let g = cs();
            g.flush();
            drop(g);
        })
        .unwrap();

    // A worker that keeps counted pointers in a thread-local cache and exits.
    std::thread::spawn(move || {
        CACHE.with(|c| {
            let mut v = c.0.borrow_mut();
            for _ in 0..burst {
                v.push(Rc::new(Item)); // Rc::new does not touch the participant handle
            }
        });
        drop(cs()); // first use of HANDLE: it is destroyed before CACHE at thread exit
    })
    .join()
    .unwrap();

    // Any thread that now runs a collection scans the registry.
    tx.send(()).unwrap();
    collector.join().unwrap();
}
