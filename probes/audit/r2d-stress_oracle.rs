// Randomised stress of the cell operations with an exact oracle: an address registered as
// "protected by a live Snapshot" must not be DISPOSEd/DEALLOCed.
use circ::verif::{self, ev, site};
use circ::{cs, AtomicRc, Rc, RcObject};
use std::cell::Cell;
use std::collections::HashMap;
use std::sync::atomic::{AtomicBool, AtomicUsize, Ordering::SeqCst};
use std::sync::Mutex;

static PROTECTED: Mutex<Option<HashMap<usize, usize>>> = Mutex::new(None);
static VIOLATIONS: AtomicUsize = AtomicUsize::new(0);
static LIVE: AtomicUsize = AtomicUsize::new(0);
static STOP: AtomicBool = AtomicBool::new(false);
static NEXT_ID: AtomicUsize = AtomicUsize::new(1);

struct Node {
    id: usize,
    alive: AtomicUsize,
    next: AtomicRc<Node>,
    other: AtomicRc<Node>,
}
const MAGIC: usize = 0xA11CE;
unsafe impl RcObject for Node {
    fn pop_edges(&mut self, out: &mut Vec<Rc<Self>>) {
        out.push(self.next.take());
        out.push(self.other.take());
    }
}
impl Drop for Node {
    fn drop(&mut self) {
        self.alive.store(0xDEAD, SeqCst);
        LIVE.fetch_sub(1, SeqCst);
    }
}
fn new_node(next: Rc<Node>, via_from: bool) -> Rc<Node> {
    LIVE.fetch_add(1, SeqCst);
    // ids are taken after `next` exists, so edges always lead to smaller ids: no cycles
    if via_from {
        Rc::new(Node { id: NEXT_ID.fetch_add(1, SeqCst), alive: AtomicUsize::new(MAGIC), next: AtomicRc::from(next), other: AtomicRc::null() })
    } else {
        let n = Rc::new(Node { id: NEXT_ID.fetch_add(1, SeqCst), alive: AtomicUsize::new(MAGIC), next: AtomicRc::null(), other: AtomicRc::null() });
        let g = cs();
        n.as_ref().unwrap().next.store(next, SeqCst, &g);
        n
    }
}

fn protect(addr: usize) {
    if addr == 0 { return; }
    let mut p = PROTECTED.lock().unwrap();
    *p.as_mut().unwrap().entry(addr).or_insert(0) += 1;
}
fn unprotect(addr: usize) {
    if addr == 0 { return; }
    let mut p = PROTECTED.lock().unwrap();
    let m = p.as_mut().unwrap();
    let c = m.get_mut(&addr).unwrap();
    *c -= 1;
    if *c == 0 { m.remove(&addr); }
}
fn on_event(kind: u32, addr: usize, _aux: usize) {
    if kind == ev::DISPOSE || kind == ev::DEALLOC || kind == ev::MARKED {
        let p = PROTECTED.lock().unwrap();
        if p.as_ref().map_or(false, |m| m.contains_key(&addr)) {
            VIOLATIONS.fetch_add(1, SeqCst);
            eprintln!("VIOLATION kind={kind} addr={addr:#x}");
        }
    }
}
thread_local! {
    static RNG: Cell<u64> = const { Cell::new(0) };
    static SLOW: Cell<bool> = const { Cell::new(false) };
}
fn rnd() -> u64 {
    RNG.with(|r| {
        let mut x = r.get();
        x ^= x << 13; x ^= x >> 7; x ^= x << 17;
        r.set(x);
        x
    })
}
fn on_yield(s: u32) {
    if !SLOW.with(|s| s.get()) { return; }
    // Stall after reading the epoch (so stamps get stale) and around count updates.
    let r = rnd() % 1000;
    if s == site::EPOCH_LOADED && r < 30 {
        std::thread::sleep(std::time::Duration::from_micros(50 + rnd() % 300));
    } else if r < 3 {
        std::thread::yield_now();
    }
}
fn addr_of(s: &circ::Snapshot<'_, Node>) -> usize {
    verif::tagged::as_raw::<u64>(verif::snapshot_word(s)) & !7
}

#[test]
fn stress() {
    *PROTECTED.lock().unwrap() = Some(HashMap::new());
    verif::set_event_hook(Some(on_event));
    verif::set_yield_hook(Some(on_yield));
    const CELLS: usize = 6;
    let cells: Vec<AtomicRc<Node>> = (0..CELLS).map(|_| AtomicRc::null()).collect();
    let cells = &cells;
    let secs: u64 = std::env::var("SECS").ok().and_then(|s| s.parse().ok()).unwrap_or(10);
    std::thread::scope(|sc| {
        // epoch pumps
        for t in 0..2 {
            sc.spawn(move || {
                RNG.with(|r| r.set(0x9E3779B97F4A7C15 ^ (t as u64 + 100)));
                while !STOP.load(SeqCst) {
                    let g = cs();
                    g.flush();
                    drop(g);
                }
            });
        }
        for t in 0..4 {
            sc.spawn(move || {
                RNG.with(|r| r.set(0x2545F4914F6CDD1D ^ ((t as u64 + 1) << 32) ^ (t as u64 + 7)));
                SLOW.with(|s| s.set(true));
                let mut held: Vec<Rc<Node>> = Vec::new();
                while !STOP.load(SeqCst) {
                    let c = &cells[(rnd() % CELLS as u64) as usize];
                    let c2 = &cells[(rnd() % CELLS as u64) as usize];
                    match rnd() % 12 {
                        0 => {
                            // push on a stack, sometimes with AtomicRc::from (unstamped link)
                            let old = c.swap(Rc::null(), SeqCst);
                            let n = new_node(old, rnd() % 2 == 0);
                            drop(c.swap(n, SeqCst));
                        }
                        1 => {
                            // move a pointer between cells without a guard
                            let x = c.swap(Rc::null(), SeqCst);
                            drop(c2.swap(x, SeqCst));
                        }
                        2 | 3 | 4 => {
                            // traverse a few nodes under a guard, holding all the snapshots
                            let g = cs();
                            let mut seen = Vec::new();
                            let mut s = c.load(SeqCst, &g);
                            for _ in 0..(rnd() % 6) {
                                let Some(n) = s.as_ref() else { break };
                                let a = addr_of(&s);
                                protect(a);
                                seen.push((a, s));
                                s = if rnd() % 3 == 0 { n.other.load(SeqCst, &g) } else { n.next.load(SeqCst, &g) };
                            }
                            if rnd() % 2 == 0 { std::thread::yield_now(); }
                            for (_, s) in &seen {
                                assert_eq!(s.as_ref().unwrap().alive.load(SeqCst), MAGIC);
                            }
                            // sometimes keep one alive as Rc
                            if let Some((_, s)) = seen.last() {
                                if rnd() % 4 == 0 { held.push(s.counted()); }
                            }
                            for (a, _) in &seen { unprotect(*a); }
                            drop(g);
                        }
                        5 => {
                            // Rc::snapshot, then move the Rc into a link of another node and go on using the snapshot
                            if let Some(rc) = held.pop() {
                                let g = cs();
                                let s = rc.snapshot(&g);
                                let a = addr_of(&s);
                                protect(a);
                                let tgt = c.load(SeqCst, &g);
                                if let Some(t) = tgt.as_ref() {
                                    if !tgt.ptr_eq(s) && t.id > rc.as_ref().unwrap().id {
                                        t.other.store(rc, SeqCst, &g);
                                    } else { drop(rc); }
                                } else {
                                    drop(c2.swap(rc, SeqCst));
                                }
                                std::thread::yield_now();
                                assert_eq!(s.as_ref().unwrap().alive.load(SeqCst), MAGIC);
                                unprotect(a);
                                drop(g);
                            }
                        }
                        6 => {
                            // pop
                            let g = cs();
                            let h = c.load(SeqCst, &g);
                            if let Some(n) = h.as_ref() {
                                let a = addr_of(&h);
                                protect(a);
                                let nx = n.next.load(SeqCst, &g);
                                let an = addr_of(&nx);
                                protect(an);
                                match c.compare_exchange(h, nx.counted(), SeqCst, SeqCst, &g) {
                                    Ok(old) => { if rnd() % 2 == 0 { held.push(old) } else { old.finalize(&g) } }
                                    Err(e) => drop(e.desired),
                                }
                                assert_eq!(n.alive.load(SeqCst), MAGIC);
                                if let Some(x) = nx.as_ref() { assert_eq!(x.alive.load(SeqCst), MAGIC); }
                                unprotect(a);
                                unprotect(an);
                            }
                            drop(g);
                        }
                        7 => {
                            // tag CAS
                            let g = cs();
                            let h = c.load(SeqCst, &g);
                            let _ = c.compare_exchange_tag(h, (rnd() % 8) as usize, SeqCst, SeqCst, &g);
                            drop(g);
                        }
                        8 => { held.clear(); }
                        9 => {
                            if let Some(rc) = held.pop() { drop(c.swap(rc, SeqCst)); }
                        }
                        10 => {
                            // weak round trip
                            if let Some(rc) = held.last() {
                                let w = rc.downgrade();
                                let g = cs();
                                if let Some(s) = w.snapshot(&g).upgrade() {
                                    let a = addr_of(&s);
                                    protect(a);
                                    held.pop();
                                    std::thread::yield_now();
                                    assert_eq!(s.as_ref().unwrap().alive.load(SeqCst), MAGIC);
                                    unprotect(a);
                                }
                                drop(g);
                            }
                        }
                        _ => {
                            let g = cs();
                            c.store(Rc::null(), SeqCst, &g);
                        }
                    }
                    if held.len() > 20 { held.clear(); }
                }
            });
        }
        std::thread::sleep(std::time::Duration::from_secs(secs));
        STOP.store(true, SeqCst);
    });
    verif::set_yield_hook(None);
    for c in cells.iter() {
        let g = cs();
        c.store(Rc::null(), SeqCst, &g);
    }
    let mut rounds = 0;
    while LIVE.load(SeqCst) != 0 && rounds < 2_000_000 {
        let g = cs();
        g.flush();
        rounds += 1;
    }
    println!("epoch={} live={} rounds={}", verif::global_epoch(), LIVE.load(SeqCst), rounds);
    assert_eq!(VIOLATIONS.load(SeqCst), 0);
    assert_eq!(LIVE.load(SeqCst), 0);
}
