use circ::{cs, Rc, RcObject};
use std::marker::PhantomData;
use std::sync::atomic::{AtomicUsize, Ordering::SeqCst};
use std::thread::ThreadId;

static WRONG_THREAD: AtomicUsize = AtomicUsize::new(0);
static DROPS: AtomicUsize = AtomicUsize::new(0);

// Not Send, not Sync (like a type holding std::rc::Rc or a MutexGuard).
struct Local {
    owner: ThreadId,
    _not_send: PhantomData<*const ()>,
}
unsafe impl RcObject for Local {
    fn pop_edges(&mut self, _: &mut Vec<Rc<Self>>) {}
}
impl Drop for Local {
    fn drop(&mut self) {
        DROPS.fetch_add(1, SeqCst);
        if std::thread::current().id() != self.owner {
            WRONG_THREAD.fetch_add(1, SeqCst);
        }
    }
}

#[test]
fn non_send_payload_dropped_elsewhere() {
    std::thread::spawn(|| {
        let rc = Rc::new(Local { owner: std::thread::current().id(), _not_send: PhantomData });
        drop(rc);
    })
    .join()
    .unwrap();
    for _ in 0..16 {
        let g = cs();
        g.flush();
    }
    println!("drops={} wrong={}", DROPS.load(SeqCst), WRONG_THREAD.load(SeqCst));
    assert_eq!(WRONG_THREAD.load(SeqCst), 0);
}

struct Borrowing<'a> {
    s: &'a String,
}
unsafe impl<'a> RcObject for Borrowing<'a> {
    fn pop_edges(&mut self, _: &mut Vec<Rc<Self>>) {}
}
static LEN: AtomicUsize = AtomicUsize::new(0);
impl Drop for Borrowing<'_> {
    fn drop(&mut self) {
        LEN.store(self.s.len(), SeqCst); // reads the borrowed String
    }
}
#[test]
fn borrowed_payload_outlives_borrow() {
    {
        let s = String::from("hello");
        let rc = Rc::new(Borrowing { s: &s });
        drop(rc);
        // `s` dies here, the destructor of `Borrowing` has not run yet
    }
    for _ in 0..16 {
        let g = cs();
        g.flush();
    }
    println!("len read by the late destructor: {}", LEN.load(SeqCst));
}
