#!/bin/bash
# tools/try_seed.sh <patch> <check-id>... : applies a patch to /repo, runs the checks (quick), reverts.
PATCH="$(readlink -f "$1")"; shift
cd /repo || exit 2
git diff --quiet || { echo "/repo not clean"; exit 2; }
git apply "$PATCH" || { echo "patch does not apply"; exit 2; }
trap 'git -C /repo checkout -q -- . ; cd /verif/harness && cargo build --release >/dev/null 2>&1' EXIT
cd /verif
for id in "$@"; do
  out=$(./check $id ${TIER:-quick} 2>&1); rc=$?
  echo "--- $id exit=$rc"
  echo "$out" | grep -E "VIOLATION|oracle=|quick:|thorough:|inconclusive|KNOWN" | cut -c1-400 | head -8
done
