#!/usr/bin/env python3
"""Sensitivity matrix: applies each deliberate breakage (mutant) to a scratch copy of /repo, checks
that it still compiles and passes the existing test suite, runs the listed checks (quick tier) built
against that copy, and records which checks turn red. Never touches /repo or /verif/evidence.

usage: tools/mutants.py [--only M01,M02] [--skip-suite] [--tier quick]
Writes /verif/mutants/<id>.patch and /verif/mutants/RESULTS.json / RESULTS.md.
"""
import json, os, re, shutil, subprocess, sys, time

SCR = "/tmp/circ-mut"
U, S, W, P, I, E, Q, L, D = ("src/utils.rs", "src/strong.rs", "src/weak.rs", "src/ebr_impl/pointers.rs",
                             "src/ebr_impl/internal.rs", "src/ebr_impl/epoch.rs", "src/ebr_impl/sync/queue.rs",
                             "src/ebr_impl/sync/list.rs", "src/ebr_impl/default.rs")
G = "src/ebr_impl/guard.rs"
DEF = "src/ebr_impl/deferred.rs"

# id, kind ('mutant' must be detected by at least one listed check; 'control' is believed
# property-preserving for the listed checks and must stay green), description, checks, edits
M = [
 ("M02", "mutant", "AtomicRc::compare_exchange success path no longer forgets `desired` (double release)", ["C08", "C01"],
  [(S, "                    // Skip decrementing a strong count of the inserted pointer.\n                    forget(desired);\n                    let rc = Rc::from_raw(expected_raw);\n                    return Ok(rc);\n                }\n                Err(current_raw) => {\n                    if current_raw.ptr_eq(expected_raw) {\n                        expected_raw = current_raw;\n                    } else {\n                        let current = Snapshot::from_raw(current_raw, guard);\n                        return Err(CompareExchangeError { desired, current });\n                    }\n                }\n            }\n        }\n    }\n\n    /// Stores the [`Rc`] pointer `desired` into the atomic pointer if the current value is the\n    /// same as `expected` [`Snapshot`] pointer. The tag is also taken into account,\n    /// so two pointers to the same object, but with different tags, will not be considered equal.\n    ///\n    /// Unlike",
       "                    // Skip decrementing a strong count of the inserted pointer.\n                    drop(desired);\n                    let rc = Rc::from_raw(expected_raw);\n                    return Ok(rc);\n                }\n                Err(current_raw) => {\n                    if current_raw.ptr_eq(expected_raw) {\n                        expected_raw = current_raw;\n                    } else {\n                        let current = Snapshot::from_raw(current_raw, guard);\n                        return Err(CompareExchangeError { desired, current });\n                    }\n                }\n            }\n        }\n    }\n\n    /// Stores the [`Rc`] pointer `desired` into the atomic pointer if the current value is the\n    /// same as `expected` [`Snapshot`] pointer. The tag is also taken into account,\n    /// so two pointers to the same object, but with different tags, will not be considered equal.\n    ///\n    /// Unlike")]),
 ("M03", "mutant", "Snapshot::counted does not increment the count", ["C01", "C08"],
  [(S, "    pub fn counted(self) -> Rc<T> {\n        // Count first, see `Rc::clone`.\n        unsafe {\n            if let Some(cnt) = self.ptr.as_raw().as_ref() {\n                cnt.increment_strong();\n            }\n        }\n        Rc::from_raw(self.ptr)\n    }",
       "    pub fn counted(self) -> Rc<T> {\n        Rc::from_raw(self.ptr)\n    }")]),
 ("M04", "mutant", "cascade threshold -3 -> -1", ["C02", "C12"],
  [(U, "modu.le(node_epoch as _, curr_epoch as isize - 3)", "modu.le(node_epoch as _, curr_epoch as isize - 1)")]),
 ("M05", "mutant", "cascade reclaims every child immediately (`depth == 0 ||` -> `true ||`)", ["C02", "C12"],
  [(U, "if depth == 0 || modu.le(", "if true || modu.le(")]),
 ("M06", "mutant", "child's own stamp dropped from the merge", ["C02", "C12"],
  [(U, "modu.max(&[node_epoch as _, link_epoch as _, cnt_curr.epoch() as _]);", "modu.max(&[node_epoch as _, link_epoch as _]);")]),
 ("M07", "mutant", "bags expire after 1 epoch (`>= 3` -> `>= 1`)", ["C13", "C02"],
  [(I, "global_epoch.wrapping_sub(self.epoch) >= 3", "global_epoch.wrapping_sub(self.epoch) >= 1")]),
 ("M08", "mutant", "WeakSnapshot::upgrade takes no token when the count is zero", ["C02", "C05"],
  [(U, "            let new = if old.strong() == 0 {\n                old.add_strong(1)\n            } else {", "            let new = if old.strong() == 0 {\n                return true;\n            } else {")]),
 ("K01", "control", "bags expire after 2 epochs (`>= 3` -> `>= 2`): grace periods still hold for C13", ["C13"],
  [(I, "global_epoch.wrapping_sub(self.epoch) >= 3", "global_epoch.wrapping_sub(self.epoch) >= 2")]),
 ("K02", "mutant", "links are written without a timestamp (first believed redundant and listed as a control; refuted by a seeded change, see DESIGN 12.5)", ["C02"],
  [(S, "            self.with_high_tag(global_epoch())\n", "            self\n")]),
 ("K03", "mutant", "link stamp ignored in the merge (first believed redundant and listed as a control; refuted, see DESIGN 12.5)", ["C02"],
  [(U, "modu.max(&[node_epoch as _, link_epoch as _, cnt_curr.epoch() as _]);", "modu.max(&[node_epoch as _, cnt_curr.epoch() as _]);\n                let _ = link_epoch;")]),
 ("M09", "mutant", "try_dealloc frees without re-checking the weak count", ["C03"],
  [(U, "        if State::from_raw((*ptr).state.load(Ordering::SeqCst)).weak() > 0 {\n            Self::decrement_weak(ptr, None);\n        } else {\n            Self::dealloc(ptr);\n        }", "        Self::dealloc(ptr);")]),
 ("M10", "mutant", "destruction frees the block although WEAKED", ["C03"],
  [(U, "            if State::from_raw(rc.state.load(Ordering::SeqCst)).weaked() {\n                RcInner::decrement_weak(rc, Some(guard));\n            } else {\n                RcInner::dealloc(rc);\n            }", "            RcInner::dealloc(rc);")]),
 ("M11", "mutant", "destruction of a WEAKED object never releases the implicit weak share (block leak)", ["C04", "C03"],
  [(U, "            if State::from_raw(rc.state.load(Ordering::SeqCst)).weaked() {\n                RcInner::decrement_weak(rc, Some(guard));\n            } else {", "            if State::from_raw(rc.state.load(Ordering::SeqCst)).weaked() {\n            } else {")]),
 ("M12", "mutant", "Drop for NewRcIter does nothing", ["C10", "C04"],
  [(S, "impl<T: RcObject> Drop for NewRcIter<T> {\n    #[inline]\n    fn drop(&mut self) {\n        if self.remain > 0 {", "impl<T: RcObject> Drop for NewRcIter<T> {\n    #[inline]\n    fn drop(&mut self) {\n        if false && self.remain > 0 {")]),
 ("M13", "mutant", "Drop for AtomicRc does nothing (edges left to Drop leak)", ["C04"],
  [(S, "        let ptr = (*self.link.get_mut()).as_raw();\n        unsafe {\n            if let Some(cnt) = ptr.as_mut() {\n                RcInner::decrement_strong(cnt, 1, None);", "        let ptr = (*self.link.get_mut()).as_raw();\n        unsafe {\n            if let Some(cnt) = ptr.as_mut().filter(|_| false) {\n                RcInner::decrement_strong(cnt, 1, None);")]),
 ("M15", "mutant", "increment_strong ignores DESTRUCTED", ["C05", "C01"],
  [(U, "            if old.destructed() {\n                return false;\n            }\n            // Incrementing from zero", "            // Incrementing from zero")]),
 ("M16", "mutant", "WeakSnapshot::upgrade returns Some unconditionally", ["C05", "C02"],
  [(W, "        if !ptr.is_null() && !unsafe { ptr.deref() }.is_not_destructed() {\n            return None;\n        }", "        if !ptr.is_null() && !unsafe { ptr.deref() }.is_not_destructed() {\n        }")]),
 ("M17", "mutant", "children are always re-deferred instead of cascaded", ["C06"],
  [(U, "if depth == 0 || modu.le(", "if depth == 0 || false && modu.le(")]),
 ("M18", "mutant", "recursion cap 1024 -> 8", ["C06"],
  [(U, "    if depth >= 1024 {", "    if depth >= 8 {")]),
 ("M19", "mutant", "recursion cap removed", ["C07"],
  [(U, "    if depth >= 1024 {", "    if depth >= usize::MAX {")]),
 ("M20", "mutant", "recursion passes `depth` instead of `depth + 1`", ["C07"],
  [(U, "dispose_general_node(next_ptr.as_raw(), depth + 1, counter, guard);", "dispose_general_node(next_ptr.as_raw(), depth.max(1), counter, guard);")]),
 ("M21", "mutant", "AtomicRc::compare_exchange without the ptr_eq retry", ["C08"],
  [(S, "                Err(current_raw) => {\n                    if current_raw.ptr_eq(expected_raw) {\n                        expected_raw = current_raw;\n                    } else {\n                        let current = Snapshot::from_raw(current_raw, guard);\n                        return Err(CompareExchangeError { desired, current });\n                    }\n                }\n            }\n        }\n    }\n\n    /// Stores the [`Rc`] pointer `desired` into the atomic pointer if the current value is the\n    /// same as `expected` [`Snapshot`] pointer. The tag is also taken into account,\n    /// so two pointers to the same object, but with different tags, will not be considered equal.\n    ///\n    /// Unlike",
       "                Err(current_raw) => {\n                    if false && current_raw.ptr_eq(expected_raw) {\n                        expected_raw = current_raw;\n                    } else {\n                        let current = Snapshot::from_raw(current_raw, guard);\n                        return Err(CompareExchangeError { desired, current });\n                    }\n                }\n            }\n        }\n    }\n\n    /// Stores the [`Rc`] pointer `desired` into the atomic pointer if the current value is the\n    /// same as `expected` [`Snapshot`] pointer. The tag is also taken into account,\n    /// so two pointers to the same object, but with different tags, will not be considered equal.\n    ///\n    /// Unlike")]),
 ("M22", "mutant", "AtomicRc::store forgets to release the old value", ["C08", "C04"],
  [(S, "            // Did not use `Rc::drop`, to reuse the given `guard`.\n            if let Some(cnt) = old_ptr.as_raw().as_mut() {", "            // Did not use `Rc::drop`, to reuse the given `guard`.\n            if let Some(cnt) = old_ptr.as_raw().as_mut().filter(|_| false) {")]),
 ("M23", "mutant", "tag mask off by one (`low_bits` = align instead of align-1)", ["C11", "C08"],
  [(P, "    (1 << align_of::<T>().trailing_zeros()) - 1\n", "    (1 << align_of::<T>().trailing_zeros()) - 1 | (1 << align_of::<T>().trailing_zeros())\n")]),
 ("M24", "mutant", "AtomicWeak::compare_exchange_tag compares the epoch bits again", ["C09"],
  [(W, "                Ok(current_raw) => return Ok(WeakSnapshot::from_raw(current_raw, guard)),\n                Err(current_raw) => {\n                    if current_raw.ptr_eq(expected_raw) {", "                Ok(current_raw) => return Ok(WeakSnapshot::from_raw(current_raw, guard)),\n                Err(current_raw) => {\n                    if false && current_raw.ptr_eq(expected_raw) {")]),
 ("M25", "mutant", "AtomicWeak::store leaks the old weak share", ["C09", "C04"],
  [(W, "        let old_ptr = self.link.swap(new_ptr, order);\n        unsafe {\n            if let Some(cnt) = old_ptr.as_raw().as_mut() {\n                RcInner::decrement_weak(cnt, Some(guard));", "        let old_ptr = self.link.swap(new_ptr, order);\n        unsafe {\n            if let Some(cnt) = old_ptr.as_raw().as_mut().filter(|_| false) {\n                RcInner::decrement_weak(cnt, Some(guard));")]),
 ("M26", "mutant", "AtomicWeak::compare_exchange returns `desired`'s pointer as the previous value", ["C09"],
  [(W, "                    forget(desired);\n                    let weak = Weak::from_raw(expected_raw);\n                    return Ok(weak);\n                }\n                Err(current_raw) => {\n                    // The internal epoch bits", "                    let weak = Weak::from_raw(desired.ptr);\n                    forget(desired);\n                    return Ok(weak);\n                }\n                Err(current_raw) => {\n                    // The internal epoch bits")]),
 ("M27", "mutant", "new_many allocates with N-1 shares (for N >= 2)", ["C10"],
  [(S, "        let ptr = RcInner::alloc(obj, checked_count(N));\n        [(); N].map", "        let ptr = RcInner::alloc(obj, checked_count(if N >= 2 { N - 1 } else { N }));\n        [(); N].map")]),
 ("M28", "mutant", "NewRcIter::drop releases remain-1 shares", ["C10"],
  [(S, "                RcInner::decrement_strong(self.ptr.as_raw(), self.remain as _, None);", "                RcInner::decrement_strong(self.ptr.as_raw(), (self.remain - 1).max(1) as _, None);")]),
 ("M29", "mutant", "weak_many adds N+1 weak shares", ["C10"],
  [(S, "            cnt.increment_weak(checked_count(N));", "            cnt.increment_weak(checked_count(N) + 1);")]),
 ("M30", "mutant", "epoch bits one position too low (overlap with the address)", ["C11"],
  [(P, "        usize::BITS - HIGH_TAG_WIDTH\n", "        usize::BITS - HIGH_TAG_WIDTH - 1\n")]),
 ("M31", "mutant", "Tagged::is_null tests the raw word", ["C11"],
  [(P, "    pub fn is_null(&self) -> bool {\n        self.as_raw().is_null()", "    pub fn is_null(&self) -> bool {\n        self.ptr.is_null()")]),
 ("M32", "mutant", "WEAK mask one bit too wide (overlaps WEAKED)", ["C12"],
  [(U, "const WEAK: u64 = ((1 << WEAK_WIDTH) - 1) << STRONG_WIDTH;", "const WEAK: u64 = ((1 << (WEAK_WIDTH + 1)) - 1) << STRONG_WIDTH;")]),
 ("M33", "mutant", "Modular::trans uses max instead of max+1", ["C12"],
  [(U, "        (val - (self.max + 1)) % (1 << WIDTH)\n", "        (val - self.max) % (1 << WIDTH)\n")]),
 ("M34", "mutant", "Modular::le uses < instead of <=", ["C12"],
  [(U, "        self.trans(a) <= self.trans(b)", "        self.trans(a) < self.trans(b)")]),
 ("M35", "mutant", "with_epoch masks with the wrong width (epoch & 7)", ["C12"],
  [(U, "Self::from_raw((self.inner & !EPOCH) | (((epoch as u64) << EPOCH_MASK_HEIGHT) & EPOCH))", "Self::from_raw((self.inner & !EPOCH) | ((((epoch & 7) as u64) << EPOCH_MASK_HEIGHT) & EPOCH))")]),
 ("M36", "mutant", "try_advance ignores pinned participants", ["C13", "C14"],
  [(I, "                    if local_epoch.is_pinned() && local_epoch.unpinned() != global_epoch {", "                    if false && local_epoch.is_pinned() && local_epoch.unpinned() != global_epoch {")]),
 ("M38", "mutant", "a nested guard's drop clears the pinned bit", ["C16", "C13"],
  [(I, "        self.guard_count.set(guard_count - 1);\n        if guard_count == 1 {\n            self.epoch.store(Epoch::starting(), Ordering::Release);", "        self.guard_count.set(guard_count - 1);\n        if guard_count <= 2 {\n            self.epoch.store(Epoch::starting(), Ordering::Release);\n        }\n        if guard_count == 1 {")]),
 ("K04", "control", "pin without the re-validation loop (C13 still holds: try_advance re-reads announcements)", ["C13"],
  [(I, "                if new_epoch.value() == self.global().epoch.load(Ordering::Acquire).value() {\n                    break new_epoch;\n                }\n                self.epoch.store(Epoch::starting(), Ordering::Release);", "                break new_epoch;")]),
 ("M56", "mutant", "pin without the re-validation loop: the participant can announce an epoch two behind the global one (the C14 side of control K04)", ["C14"],
  [(I, "                if new_epoch.value() == self.global().epoch.load(Ordering::Acquire).value() {\n                    break new_epoch;\n                }\n                self.epoch.store(Epoch::starting(), Ordering::Release);", "                break new_epoch;")]),
 ("M39", "mutant", "Epoch::successor adds two epochs", ["C14"],
  [(E, "            data: self.data.wrapping_add(2),", "            data: self.data.wrapping_add(4),")]),
 ("M40", "mutant", "repin_without_collect publishes an epoch ahead of the global one when it lags", ["C14"],
  [(I, "            self.epoch.store(global_epoch, Ordering::Release);\n        }\n        global_epoch", "            self.epoch.store(global_epoch.successor().successor().pinned(), Ordering::Release);\n        }\n        global_epoch")]),
 ("M41", "control", "finalize does not hand the local bag over at thread exit (first listed as a mutant; the bag is a field of Local and runs when the Local is reclaimed, nothing is lost)", ["C15", "C20"],
  [(I, "            let guard = &self.pin();\n            self.push_to_global(guard);", "            let guard = &self.pin();\n            let _ = guard;")]),
 ("M42", "mutant", "Deferred stores closures of up to 32 bytes inline (buffer is 24)", ["C15"],
  [(DEF, "            if size <= mem::size_of::<Data>() && align <= mem::align_of::<Data>() {", "            if size <= mem::size_of::<Data>() + 8 && align <= mem::align_of::<Data>() {")]),
 ("M43", "mutant", "Bag::drop skips the last deferred function", ["C15"],
  [(I, "        for deferred in self.0.drain(..) {\n            deferred.call();\n        }", "        let n = self.0.len();\n        for (i, deferred) in self.0.drain(..).enumerate() {\n            if n == 64 && i + 1 == n {\n                core::mem::forget(deferred);\n            } else {\n                deferred.call();\n            }\n        }")]),
 ("M44", "mutant", "reactivate re-pins even when other guards are live", ["C16"],
  [(I, "    pub(crate) fn repin(&self) {\n        self.acquire_handle();\n        self.unpin();", "    pub(crate) fn repin(&self) {\n        self.acquire_handle();\n        if self.guard_count.get() > 1 {\n            self.epoch.store(Epoch::starting(), Ordering::Release);\n            self.epoch.store(self.global().epoch.load(Ordering::Relaxed).pinned(), Ordering::Release);\n        }\n        self.unpin();")]),
 ("M45", "mutant", "reactivate_after re-pins only when the closure returns normally", ["C16"],
  [(G, "        // Ensure the Guard is re-pinned even if the function panics\n        defer! {\n            if let Some(local) = unsafe { self.local.as_ref() } {\n                mem::forget(local.pin());\n                local.release_handle();\n            }\n        }\n\n        f()", "        let r = f();\n        if let Some(local) = unsafe { self.local.as_ref() } {\n            mem::forget(local.pin());\n            local.release_handle();\n        }\n        r")]),
 ("M46", "mutant", "try_pop_if evaluates the predicate on the sentinel's slot (stale data) instead of the head element", ["C17"],
  [(Q, "            Some(n) if condition(unsafe { &*n.data.as_ptr() }) => unsafe {", "            Some(n) if condition(unsafe { &*(if core::ptr::eq(head.as_raw(), self.tail.load(Relaxed, guard).as_raw()) { n } else { h }).data.as_ptr() }) => unsafe {")]),
 ("M47", "mutant", "push links the node but never swings the tail; helpers gone too", ["C17"],
  [(Q, "            // if not, try to \"help\" by moving the tail pointer forward\n            let _ = self\n                .tail\n                .compare_exchange(onto, next, Release, Relaxed, guard);\n            false", "            // if not, try to \"help\" by moving the tail pointer forward\n            let _ = next;\n            true")]),
 ("M48", "mutant", "list iterator carries on from a marked predecessor instead of restarting", ["C18"],
  [(L, "                if succ.tag() != 0 {\n                    self.pred = self.head;\n                    self.curr = self.head.load(Acquire, self.guard);\n\n                    return Some(Err(IterError::Stalled));\n                }", "                let succ = succ.with_tag(0);")]),
 ("M49", "mutant", "list unlink forgets to finalize the element", ["C18"],
  [(L, "                        unsafe {\n                            C::finalize(self.curr.deref(), self.guard);\n                        }\n\n                        // `succ` is the new value of `self.pred`.", "                        // `succ` is the new value of `self.pred`.")]),
 ("M50", "mutant", "Rc == compares identity (ptr_eq) instead of the referents", ["C19"],
  [(S, "impl<T: RcObject + PartialEq> PartialEq for Rc<T> {\n    #[inline(always)]\n    fn eq(&self, other: &Self) -> bool {\n        self.as_ref() == other.as_ref()", "impl<T: RcObject + PartialEq> PartialEq for Rc<T> {\n    #[inline(always)]\n    fn eq(&self, other: &Self) -> bool {\n        self.ptr_eq(other)")]),
 ("M51", "mutant", "Snapshot hash hashes the pointer word", ["C19"],
  [(S, "impl<'g, T: RcObject + Hash> Hash for Snapshot<'g, T> {\n    fn hash<H: Hasher>(&self, state: &mut H) {\n        self.as_ref().hash(state);", "impl<'g, T: RcObject + Hash> Hash for Snapshot<'g, T> {\n    fn hash<H: Hasher>(&self, state: &mut H) {\n        self.ptr.hash(state);")]),
 ("M52", "mutant", "with_handle uses HANDLE.with (panics after the handle's destruction)", ["C20"],
  [(D, "    HANDLE\n        .try_with(|h| f(h))\n        .unwrap_or_else(|_| f(&collector().register()))", "    HANDLE.with(|h| f(h))")]),
 ("M53", "mutant", "Rc::cmp compares addresses", ["C19"],
  [(S, "impl<T: RcObject + Ord> Ord for Rc<T> {\n    fn cmp(&self, other: &Self) -> std::cmp::Ordering {\n        self.as_ref().cmp(&other.as_ref())", "impl<T: RcObject + Ord> Ord for Rc<T> {\n    fn cmp(&self, other: &Self) -> std::cmp::Ordering {\n        (self.ptr.as_raw() as usize).cmp(&(other.ptr.as_raw() as usize))")]),
 ("M54", "mutant", "list insert does not re-read the successor after a failed CAS", ["C18"],
  [(L, "                Err(curr) => next = curr,\n", "                Err(curr) => { let _ = curr; }\n")]),
 ("M57", "mutant", "disposal frame reuses the epoch window it read at its top for every child (revert of D11)", ["C02"],
  [(U, "            let modu: Modular<EPOCH_WIDTH> = Modular::new(global_epoch() as isize + 1);\n\n            // Decrement next node's strong count and update its epoch.", "            // Decrement next node's strong count and update its epoch.")]),
 ("M58", "mutant", "unpin writes back the guard count it read before the collection (revert of D12, first half)", ["C16"],
  [(I, "        let guard_count = self.guard_count.get();\n        self.guard_count.set(guard_count - 1);", "        self.guard_count.set(guard_count - 1);"),
   (I, "    pub(crate) fn unpin(&self) {\n        if self.guard_count.get() == 1\n", "    pub(crate) fn unpin(&self) {\n        let guard_count = self.guard_count.get();\n        if guard_count == 1\n")]),
 ("M59", "mutant", "the collection loop of unpin re-pins although a deferred function kept a guard (revert of D12, second half, first site)", ["C16"],
  [(I, "                if self.guard_count.get() == 1 {\n                    self.repin_without_collect();\n                }", "                self.repin_without_collect();")]),
 ("M67", "mutant", "the disposal pass re-pins every 128 nodes although a deferred function kept a guard (revert of D12, second half, second site)", ["C16"],
  [(U, "            local.repin_in_disposal();", "            local.repin_without_collect();")]),
 ("K05", "control", "the disposal pass never re-pins (what 265b081 did by accident): no listed property requires the re-pin, every check must stay green; T10's non-triviality count drops to 0, which is how the evidence shows it", ["C02", "C06", "C07", "C16"],
  [(U, "    if count % 128 == 0 {", "    if count % 128 == 0 && depth == usize::MAX {")]),
 ("M72", "mutant", "queue push publishes the tail with a plain store instead of the CAS from `onto` (round-8 seed): an overtaken pusher moves the tail back onto a node that is later freed", ["C17"],
  [(Q, "                let _ = self\n                    .tail\n                    .compare_exchange(onto, new, Release, Relaxed, guard);", "                self.tail.store(new, Release);")]),
 ("M73", "mutant", "List::insert writes the new entry's own next only after the head CAS that publishes it (round-7 seed)", ["C18", "C14"],
  [(L, "            entry.next.store(next, Relaxed);\n            match to.compare_exchange_weak(next, entry_ptr, Release, Relaxed, guard) {\n                Ok(_) => break,", "            match to.compare_exchange_weak(next, entry_ptr, Release, Relaxed, guard) {\n                Ok(_) => {\n                    entry.next.store(next, Relaxed);\n                    break;\n                }")]),
 ("M60", "mutant", "increment_strong no longer refuses to overflow the strong field", ["C01"],
  [(U, "            assert!(\n                old.strong() as u64 + add as u64 <= STRONG,\n                \"too many references to one object\"\n            );\n", "")]),
 ("M61", "mutant", "bulk constructors truncate the count again (`as u32`, no range check)", ["C10"],
  [(U, "    assert!(\n        count as u64 <= STRONG,\n        \"too many references to one object\"\n    );\n", "")]),
 ("M62", "mutant", "increment_weak no longer refuses to overflow the weak field", ["C05"],
  [(U, "        assert!(\n            old.weak() as u64 + count as u64 <= (WEAK / WEAK_COUNT) / 2,\n            \"too many weak references to one object\"\n        );\n", "")]),
 ("M63", "mutant", "try_advance may start a scan within a scan again (revert of D14)", ["C18", "C20"],
  [(I, "            if local.advancing.replace(true) {\n                return global_epoch;\n            }", "            let _ = local.advancing.replace(true);")]),
 ("M64", "mutant", "try_pop_if reads the element after retiring the old sentinel (revert of D15)", ["C18", "C15"],
  [(Q, "                        let data = n.data.assume_init_read();\n                        guard.defer_destroy(head);\n                        Some(data)\n                    })\n                    .map_err(|_| ())\n            },\n            None | Some(_) => Ok(None),", "                        guard.defer_destroy(head);\n                        Some(n.data.assume_init_read())\n                    })\n                    .map_err(|_| ())\n            },\n            None | Some(_) => Ok(None),")]),
 ("M65", "mutant", "recursion cap 1024 -> 4096 (frames no longer fit a 512 KiB stack)", ["C07"],
  [(U, "    if depth >= 1024 {", "    if depth >= 4096 {")]),
 ("M66", "mutant", "a guard created by a deferred function is not counted when the collection decides to re-pin on a full bag (schedule_collection ignores guard_count)", ["C16", "C02"],
  [(I, "        if self.collecting.get() && self.guard_count.get() == 1 {\n            self.repin_without_collect();", "        if self.collecting.get() {\n            self.epoch.store(self.global().epoch.load(Ordering::Relaxed).pinned(), Ordering::Release);")]),
 ("M68", "mutant", "Rc::clone builds the handle before it counts (a refused count unwinds through a handle that owns nothing; revert of 39968f4, strong side)", ["C01"],
  [(S, "        unsafe {\n            if let Some(cnt) = self.ptr.as_raw().as_ref() {\n                cnt.increment_strong();\n            }\n        }\n        Self {\n            ptr: self.ptr,\n            _marker: PhantomData,\n        }\n    }", "        let rc = Self {\n            ptr: self.ptr,\n            _marker: PhantomData,\n        };\n        unsafe {\n            if let Some(cnt) = rc.ptr.as_raw().as_ref() {\n                cnt.increment_strong();\n            }\n        }\n        rc\n    }")]),
 ("M69", "mutant", "Weak::clone builds the handle before it counts (revert of 39968f4, weak side)", ["C05"],
  [(W, "        self.increment_weak();\n        Self { ptr: self.ptr }", "        let weak = Self { ptr: self.ptr };\n        weak.increment_weak();\n        weak")]),
 ("M70", "mutant", "push_bag seals with the epoch cached at the last pin (the change three round-4 agents made)", ["C13"],
  [(I, "        let epoch = self.epoch.load(Ordering::Relaxed);\n        self.queue.push(bag.seal(epoch), guard);", "        let epoch = match unsafe { guard.local.as_ref() } {\n            Some(local) => local.prev_epoch.get().unpinned(),\n            None => self.epoch.load(Ordering::Relaxed),\n        };\n        self.queue.push(bag.seal(epoch), guard);")]),
 ("M71", "mutant", "a collection may start within a collection when the inner critical section belongs to another (temporary) participant (revert of D16)", ["C20"],
  [(I, "            && !THREAD_COLLECTING.with(|c| c.replace(true))\n", "            && !THREAD_COLLECTING.with(|c| c.replace(false))\n")]),
 ("M55", "mutant", "pop returns the value although the head CAS failed", ["C17"],
  [(Q, "    fn pop_internal(&self, guard: &Guard) -> Result<Option<T>, ()> {\n        let head = self.head.load(Acquire, guard);\n        let h = unsafe { head.deref() };\n        let next = h.next.load(Acquire, guard);\n        match unsafe { next.as_ref() } {\n            Some(n) => unsafe {\n                self.head\n                    .compare_exchange(head, next, Release, Relaxed, guard)\n                    .map(|_| {", "    fn pop_internal(&self, guard: &Guard) -> Result<Option<T>, ()> {\n        let head = self.head.load(Acquire, guard);\n        let h = unsafe { head.deref() };\n        let next = h.next.load(Acquire, guard);\n        match unsafe { next.as_ref() } {\n            Some(n) => unsafe {\n                self.head\n                    .compare_exchange(head, next, Release, Relaxed, guard)\n                    .or_else(|e| if e.ptr_eq(next) { Ok(e) } else { Err(e) })\n                    .map(|_| {")]),
]


def sh(cmd, cwd=None, env=None, timeout=1800):
    # (the existing suite hangs on a few mutants: give it 6 minutes)
    if "cargo test --workspace" in cmd:
        cmd = "timeout -k 5 360 " + cmd
    e = dict(os.environ)
    if env:
        e.update(env)
    p = subprocess.run(["bash", "-c", cmd], cwd=cwd, env=e, capture_output=True, text=True, timeout=timeout)
    return p.returncode, p.stdout + p.stderr


def prepare():
    os.makedirs(SCR, exist_ok=True)
    sh(f"rm -rf {SCR}/repo {SCR}/harness {SCR}/out && mkdir -p {SCR}/out")
    sh(f"rsync -a --exclude target --exclude .git /repo/ {SCR}/repo/")
    sh(f"cd {SCR}/repo && git init -q && git add -A && git -c user.email=a@b -c user.name=m commit -qm base")
    sh(f"rsync -a --exclude target /verif/harness/ {SCR}/harness/")
    t = open(f"{SCR}/harness/Cargo.toml").read().replace('path = "/repo"', f'path = "{SCR}/repo"')
    open(f"{SCR}/harness/Cargo.toml", "w").write(t)
    c = open(f"{SCR}/harness/.cargo/config.toml").read().replace("/verif/harness/target", f"{SCR}/target-harness")
    open(f"{SCR}/harness/.cargo/config.toml", "w").write(c)
    sh(f"ln -sfn /verif/corpus {SCR}/out/corpus; cp /verif/known_findings.json {SCR}/out/")


def main():
    only = None
    skip_suite = "--skip-suite" in sys.argv
    tier = "quick"
    for i, a in enumerate(sys.argv):
        if a == "--only":
            only = set(sys.argv[i + 1].split(","))
        if a == "--tier":
            tier = sys.argv[i + 1]
    prepare()
    os.makedirs("/verif/mutants", exist_ok=True)
    try:
        results = json.load(open("/verif/mutants/RESULTS.json"))
    except Exception:
        results = {}
    for mid, kind, desc, checks, edits in M:
        if only and mid not in only:
            continue
        sh("git checkout -q -- .", cwd=f"{SCR}/repo")
        ok = True
        for f, old, new in edits:
            s = open(f"{SCR}/repo/{f}").read()
            if s.count(old) != 1:
                print(f"{mid}: pattern found {s.count(old)} times in {f}", flush=True)
                ok = False
                break
            open(f"{SCR}/repo/{f}", "w").write(s.replace(old, new))
        if not ok:
            results[mid] = {"kind": kind, "desc": desc, "error": "pattern"}
            continue
        _, diff = sh("git diff", cwd=f"{SCR}/repo")
        open(f"/verif/mutants/{mid}.patch", "w").write(diff)
        r = {"kind": kind, "desc": desc, "checks": {}}
        env = {"CARGO_TARGET_DIR": f"{SCR}/target-repo", "CARGO_NET_OFFLINE": "true"}
        if not skip_suite:
            rc, out = sh("cargo test --workspace --no-fail-fast --offline 2>&1 | grep -E '^test result|error(\\[|:)' ; echo EXIT=${PIPESTATUS[0]}", cwd=f"{SCR}/repo", env=env)
            failed = "FAILED" in out or "error" in out
            r["suite"] = "HANGS" if ("EXIT=124" in out or "EXIT=137" in out) else ("FAILS" if failed else "passes")
        rc, out = sh("cargo build --release 2>&1 | tail -3; CARGO_PROFILE_RELEASE_DEBUG_ASSERTIONS=true cargo build --release --target-dir " + SCR + "/target-harness/da 2>&1 | tail -1", cwd=f"{SCR}/harness", env={"CARGO_NET_OFFLINE": "true"})
        if "error" in out:
            r["build"] = out[-400:]
            results[mid] = r
            print(mid, "harness build failed", out[-300:], flush=True)
            continue
        for c in checks:
            t0 = time.time()
            rc, out = sh(f"{SCR}/target-harness/release/vcheck run {c} {tier}", cwd=f"{SCR}/harness",
                         env={"VCHECK_ROOT": f"{SCR}/out", "VCHECK_TMP": f"{SCR}/out", "VERIF_SEED": os.environ.get("VERIF_SEED", "0")})
            sigs = re.findall(r"signature=(\S+)", out)
            r["checks"][c] = {"exit": rc, "signatures": sigs[:4], "secs": round(time.time() - t0, 1)}
        results[mid] = r
        det = [c for c, v in r["checks"].items() if v["exit"] == 1]
        print(f"{mid} [{kind}] suite={r.get('suite')} detected_by={det} all={ {c: v['exit'] for c, v in r['checks'].items()} } :: {desc}", flush=True)
        json.dump(results, open("/verif/mutants/RESULTS.json", "w"), indent=1)
    # table
    lines = ["| id | kind | change | suite | checks (exit code: 1 = VIOLATION, 0 = silent) | signatures |", "|---|---|---|---|---|---|"]
    for mid in sorted(results):
        r = results[mid]
        if "checks" not in r:
            lines.append(f"| {mid} | {r['kind']} | {r['desc']} | - | {r.get('error', r.get('build', ''))[:60]} | |")
            continue
        cs = ", ".join(f"{c}:{v['exit']}" for c, v in r["checks"].items())
        sg = "; ".join(s for v in r["checks"].values() for s in v["signatures"][:1])
        lines.append(f"| {mid} | {r['kind']} | {r['desc']} | {r.get('suite', '?')} | {cs} | {sg[:120]} |")
    open("/verif/mutants/RESULTS.md", "w").write("\n".join(lines) + "\n")
    sh(f"rm -rf {SCR}")


if __name__ == "__main__":
    main()
