#!/bin/bash
# tools/silence.sh [tier] [seeds...] : every check on the unchanged tree, several seeds; any non-zero exit is listed.
TIER=${1:-quick}; shift
SEEDS=${@:-0 1 2 3 4 5}
cd /verif
git -C /repo diff --quiet || { echo "/repo has uncommitted changes"; exit 2; }
BAD=0
for s in $SEEDS; do
  for id in $(./check list); do
    out=$(VERIF_SEED=$s ./check $id $TIER 2>&1); rc=$?
    line=$(echo "$out" | grep -E "$TIER:" | head -1)
    echo "seed=$s $id rc=$rc ${line#* $TIER: }"
    if [ $rc -ne 0 ]; then BAD=$((BAD+1)); echo "$out" | grep -E "VIOLATION|oracle=|detail=|inconclusive" | cut -c1-600 | head -6; fi
  done
done
echo "non-zero exits: $BAD"
