#!/bin/bash
# tools/confirm_seed.sh <worktree> <name>
# Confirms a seeded change produced in a scratch worktree: (1) suite passes with the change,
# (2) the demonstration fails with it, (3) passes without it. Then stores it under /verif/seeded/<name>/.
WT="$1"; NAME="$2"
set -u
cd "$WT" || exit 2
export CARGO_TARGET_DIR="$WT/target" CARGO_NET_OFFLINE=true
[ -f out/patch.diff ] && [ -f out/demo.rs ] || { echo "missing out/patch.diff or out/demo.rs"; exit 2; }
# make sure the tree has exactly the patch applied
git checkout -q -- src Cargo.toml 2>/dev/null; rm -f tests/seed_demo.rs
git apply out/patch.diff || { echo "patch does not apply"; exit 2; }
FLAGS=""
grep -q "circ_verif" out/demo.rs && FLAGS="--cfg circ_verif"
echo "== suite with change"
cargo test --offline --workspace --no-fail-fast 2>&1 | grep -E "^test result|FAILED|panicked" | sort | uniq -c
SUITE=$(cargo test --offline --workspace --no-fail-fast 2>&1 | grep -c "^test result: FAILED")
cp out/demo.rs tests/seed_demo.rs
echo "== demo with change (expect failure)"
W=0
for i in 1 2 3; do RUSTFLAGS="$FLAGS" timeout 600 cargo test --offline --test seed_demo >/tmp/seed_demo_out.$$ 2>&1; rc=$?; [ $rc -ne 0 ] && W=$((W+1)); done
tail -5 /tmp/seed_demo_out.$$
echo "demo failed $W/3 times with the change"
git apply -R out/patch.diff
echo "== demo without change (expect pass)"
P=0
for i in 1 2 3; do RUSTFLAGS="$FLAGS" timeout 600 cargo test --offline --test seed_demo >/tmp/seed_demo_out.$$ 2>&1; rc=$?; [ $rc -eq 0 ] && P=$((P+1)); done
tail -3 /tmp/seed_demo_out.$$
echo "demo passed $P/3 times without the change"
rm -f tests/seed_demo.rs /tmp/seed_demo_out.$$
if [ "$SUITE" = "0" ] && [ $W -ge 2 ] && [ $P -eq 3 ]; then
  mkdir -p /verif/seeded/$NAME
  cp out/patch.diff out/demo.rs /verif/seeded/$NAME/
  [ -f out/notes.md ] && cp out/notes.md /verif/seeded/$NAME/
  echo "CONFIRMED suite_failures=$SUITE demo_fail_with=$W/3 demo_pass_without=$P/3" | tee /verif/seeded/$NAME/confirm.txt
else
  echo "NOT CONFIRMED suite_failures=$SUITE demo_fail_with=$W/3 demo_pass_without=$P/3"
  exit 1
fi
