#!/bin/bash
# tools/seed_matrix.sh [--save-corpus] : every seeded change against the checks listed in its meta.json
# (apply to /repo, quick check, revert). Prints one line per (seed, check). With --save-corpus the
# shrunk replay of each detection is stored as /verif/corpus/<ID>/seed-<name>.json (a regression case:
# it passes on the unchanged tree and fails as soon as the seeded defect is re-introduced).
SAVE=0; [ "$1" = "--save-corpus" ] && SAVE=1
cd /repo && git diff --quiet || { echo "/repo not clean"; exit 2; }
trap 'git -C /repo checkout -q -- . ; cd /verif/harness && cargo build --release >/dev/null 2>&1' EXIT
MISSED=0
for d in /verif/seeded/*/; do
  name=$(basename $d)
  checks=$(python3 -c "import json;print(' '.join(json.load(open('$d/meta.json'))['detected_by']))")
  # (patch.diff is what the sub-agent produced; patch_current.diff is the same change re-based by
  # hand where later repairs changed the surrounding lines)
  P=$d/patch.diff; [ -f $d/patch_current.diff ] && P=$d/patch_current.diff
  [ -n "$ONLY" ] && [[ " $ONLY " != *" $name "* ]] && continue
  git -C /repo apply $P || { echo "$name: patch does not apply"; continue; }
  for id in $checks; do
    out=$(cd /verif && ./check $id ${TIER:-quick} 2>&1); rc=$?
    rp=$(echo "$out" | grep -oE "replay=\S+" | head -1 | cut -d= -f2)
    sig=$(echo "$out" | grep -oE "signature=\S+" | head -1)
    echo "$name $id exit=$rc $sig"
    [ $rc -ne 1 ] && MISSED=$((MISSED+1))
    if [ $SAVE = 1 ] && [ $rc = 1 ] && [ -n "$rp" ] && [[ "$rp" != *corpus* ]]; then mkdir -p /verif/corpus/$id; cp "$rp" /verif/corpus/$id/seed-$name.json; fi
  done
  git -C /repo checkout -q -- .
done
echo "not detected: $MISSED"
