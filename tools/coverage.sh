#!/bin/bash
# tools/coverage.sh : line coverage of /repo/src (HEAD) reached by the quick tier of every check.
# Builds an instrumented copy of the harness with the nightly toolchain under /tmp/vcov (removed at
# the end), never writes under /verif except the report /verif/coverage/REPORT.txt.
set -e
W=/tmp/vcov; rm -rf $W; mkdir -p $W/out $W/prof $W/repo
T=$(ls -d /root/.rustup/toolchains/nightly-x86_64-unknown-linux-gnu/lib/rustlib/x86_64-unknown-linux-gnu/bin)
git -C /repo archive HEAD | tar -x -C $W/repo
rsync -a --exclude target /verif/harness/ $W/harness/
sed -i "s#path = \"/repo\"#path = \"$W/repo\"#" $W/harness/Cargo.toml
sed -i "s#/verif/harness/target#$W/target#" $W/harness/.cargo/config.toml
ln -sfn /verif/corpus $W/out/corpus; cp /verif/known_findings.json $W/out/
cd $W/harness
RUSTFLAGS="-C instrument-coverage --cfg circ_verif --cfg vcheck_cov" cargo +nightly build --release --target-dir $W/target >/dev/null 2>&1
mkdir -p $W/target/da/release && ln -sf $W/target/release/vcheck $W/target/da/release/vcheck
export LLVM_PROFILE_FILE="$W/prof/vc-%8m.profraw"
for id in $($W/target/release/vcheck list); do VCHECK_ROOT=$W/out VCHECK_TMP=$W/out $W/target/release/vcheck run $id quick >/dev/null 2>&1 || echo "check $id exit $?"; done
$T/llvm-profdata merge -sparse $W/prof/*.profraw -o $W/all.profdata
mkdir -p /verif/coverage
{
  echo "Line coverage of kaist-cp/circ (src/, HEAD $(git -C /repo rev-parse --short HEAD)) reached by the quick tier of all checks, $(date -u +%F)"
  $T/llvm-cov report $W/target/release/vcheck -instr-profile=$W/all.profdata --ignore-filename-regex='(\.cargo|rustc|/harness/src)' 2>/dev/null | grep -E "repo/src/|TOTAL|Filename" | sed "s#${W#/}/repo/##; s/  */ /g"
  echo; echo "Lines never executed:"
  for f in $(cd $W/repo && find src -name '*.rs' | sort); do
    $T/llvm-cov show $W/target/release/vcheck -instr-profile=$W/all.profdata $W/repo/$f 2>/dev/null | grep -E "^ +[0-9]+\| +0\|" | sed "s#^#$f:#" | cut -c1-160
  done
} > /verif/coverage/REPORT.txt
rm -rf $W
tail -n +2 /verif/coverage/REPORT.txt | head -20
