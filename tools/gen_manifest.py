#!/usr/bin/env python3
"""Writes /verif/MANIFEST.json from the table below (kept in one place so it stays valid)."""
import json, subprocess

HOOK_COMMITS = subprocess.run(
    ["git", "-C", "/repo", "log", "--format=%h %s", "--grep=^verif:"],
    capture_output=True, text=True).stdout.strip().split("\n")

LEVEL_NOTE = ("Trusted base: the harness's shadow model and oracles (harness/src), the cfg(circ_verif) hooks "
              "(yield points, events, read-only shims; add-only), proptest's generators. Only sequentially "
              "consistent interleavings at one-atomic-access granularity are explored; absence of a violation "
              "in N generated cases is evidence, not proof.")

CHECKS = {
 "C01": ("model-based PBT over generated API programs and schedules (cooperative scheduler, shadow ownership model, O-own/O-deref oracles)", "6/C01",
         "Exploration: generated multi-threaded API programs and choreography templates run against the real library under a scheduler that owns every interleaving; at every pop_edges/Drop/dealloc event the set of definite strong owners kept by a shadow model must be empty, and every dereference is compared with the model."),
 "C02": ("model-based PBT over generated programs, schedules and epoch alignments (O-snap oracle on snapshot holdings)", "6/C02",
         "Exploration: reader/unlinker/stalled-dropper/collector choreographies and free programs with generated preemption sites, epoch gaps and alignments; no object may be destructed or freed while a snapshot of it is held inside a still-active critical section."),
 "C03": ("model-based PBT (O-weak oracle at every dealloc event)", "6/C03",
         "Exploration: weak-biased programs; at every dealloc event the shadow set of weak holders (Weak, AtomicWeak content, WeakSnapshot in an active critical section) of the block must be empty."),
 "C04": ("model-based PBT over object-graph programs (exactly-once and leak accounting at quiescence)", "6/C04",
         "Exploration: generated graph-building programs; per object pop_edges <=1, Drop <=1, dealloc <=1 in that order, and after all handles are gone everything is reclaimed within a bounded number of collection rounds."),
 "C05": ("model-based PBT with real-time upgrade rules (must-fail / must-succeed) over generated histories", "6/C05",
         "Exploration: upgrades racing root and cascade destruction; conservative real-time rules decide when an upgrade must fail (destruction begun or earlier failure) and when it must succeed (caller owns an Rc, or destruction not begun and no concurrent step)."),
 "C08": ("model-based PBT of AtomicRc cell programs (CAS outcome rules, count conservation)", "6/C08",
         "Exploration: programs hammering AtomicRc cells incl. pointers re-written at other epochs; failed strong CAS must return a current that differs from expected, success returns the previous content, desired comes back untouched, strong counts equal the number of definite owners at quiescent instants."),
 "C09": ("model-based PBT of AtomicWeak cell programs (CAS outcome rules via ptr_eq, weak-count conservation)", "6/C09",
         "Exploration: as C08 for AtomicWeak, with expected WeakSnapshots from all three sources named in the property."),
 "C10": ("model-based PBT of bulk constructors with generated release orders (count conservation, O-own, O-leak)", "6/C10",
         "Exploration: sequential programs over new_many/new_many_iter/weak_many; pointers must refer to the receiver, counts equal owners after every op, object destructed only after the last owner and reclaimed at quiescence; plus new_many_iter with counts 2^k+d up to 2^64 (exact behaviour or clean rejection by panic)."),
 "C06": ("metamorphic latency bound over generated structures (PBT, sequential)", "6/C06",
         "Exploration: generated chains/trees/combs with generated stamp bands, ages, flush delays, epoch alignments and externally held nodes; the number of epoch advances until the last destructor must stay below a bound that grows with n/1024 only, and held sub-structures must survive intact."),
 "C07": ("PBT over structure size/shape/stack size with crash detection in forked children", "6/C07",
         "Exploration: structures of up to 300 000 (thorough 4 000 000) nodes reclaimed on threads with 8 MiB..64 KiB stacks; the child must exit normally and every node must be destructed. Open known finding: stacks of 128 KiB and less overflow (KNOWN-FINDING line, exit 0); any crash with a larger stack is a violation."),
 "C11": ("PBT + exhaustive sub-space enumeration of tagged-pointer arithmetic; API round-trips on real objects", "6/C11",
         "Exploration: direct formulas for tag/as_raw/high_tag/ptr_eq/is_null/formatting over generated words at 7 alignments (one sub-space enumerated completely) and public-API round-trips on real objects written at different epochs."),
 "C12": ("PBT + exhaustive enumeration of count-word and modular-epoch arithmetic; end-to-end decision observation", "6/C12",
         "Exploration: field independence of every updater, safety/liveness window of the modular comparison for generated and enumerated (epoch, age) pairs, and the real cascade's immediate-vs-defer decision at generated true ages."),
 "C19": ("PBT of Eq/Ord/Hash against Option<&T> of the referent plus algebraic laws", "6/C19",
         "Exploration: generated pointer pools (null, tagged, re-stamped, equal-content distinct objects); every comparison and hash must equal the same operation on the referents, and the Eq/Ord/Hash laws must hold over all pairs and triples."),
 "C13": ("model-based PBT over scheduled pin/defer/collect programs (grace-period oracle on critical-section instances)", "6/C13",
         "Exploration: generated multi-threaded EBR programs on the default collector under the cooperative scheduler (preemption inside pin, try_advance, push_bag, collect, queue and list) and sequential private-collector programs; a deferred function must not run while a critical section that was active at its deferral is still active."),
 "C14": ("invariant checking at every scheduled atomic step (epoch clock monotone, pinned participants within one epoch)", "6/C14",
         "Exploration: the same worlds, sampled at every yield point: the global epoch moves by 0 or +1 between samples and every participant inside a checked interval is within one epoch of it, across unpin's collection loop and all internal re-pins."),
 "C15": ("model-based PBT with per-closure execution counters, checksummed captures and thread exits at generated points", "6/C15",
         "Exploration: closures of generated size/alignment (inline and boxed storage), bag fill levels 0..130, threads exiting with pending garbage, private collectors dropped with garbage pending; each deferred function runs at most once at any time and exactly once within a bounded number of rounds."),
 "C16": ("model-based PBT of guard nesting/reactivation against the participant's real pin state", "6/C16",
         "Exploration: nested guards dropped in any order, reactivate/reactivate_after incl. panicking closures and use inside deferred functions, guards created by a deferred function that outlive it (also followed by long disposal passes); model pinned <=> live guards compared with the participant's state after every op, and the announced epoch must not move under a live guard."),
 "C17": ("history-based PBT: linearizability search (Wing-Gong) of scheduled queue histories against a FIFO-with-conditional-pop specification", "6/C17",
         "Exploration: generated 2-4 thread histories on the internal queue under generated preemptions; rejected only if no linearisation exists; plus conservation and no-duplicate checks."),
 "C18": ("history-based PBT: membership-interval containment of scheduled list traversals; finalize-exactly-once accounting", "6/C18",
         "Exploration: generated insert/delete/traverse histories on the internal list under generated preemptions; a non-stalled traversal must have visited every element registered before it began and not removed before it ended. On the real registry: thread exits under traversal (registry-churn) and staged retirement of ~200-360 extra participants under a scan that seals several bags (E3), with freed records poisoned so that touching one kills the case."),
 "C20": ("PBT over thread-local destruction orders and API actions inside destructors, in forked children", "6/C20",
         "Exploration: generated thread lifecycles (TLS initialisation order relative to the participant handle, destructor action lists, pending deferrals at exit; destructors releasing 2^10..2^20 pointers after the handle is gone); the thread must exit normally and a surviving thread (main / 2 MiB / 512 KiB / 256 KiB stack) must reclaim everything it produced."),
}

NOT_YET = {
 "C06": "check not built yet in this session (planned: metamorphic latency bound, DESIGN.md 6/C06)",
 "C07": "check not built yet in this session (planned, DESIGN.md 6/C07)",
 "C11": "check not built yet in this session (planned, DESIGN.md 6/C11)",
 "C12": "check not built yet in this session (planned, DESIGN.md 6/C12)",
 "C13": "check not built yet in this session (planned, DESIGN.md 6/C13)",
 "C14": "check not built yet in this session (planned, DESIGN.md 6/C14)",
 "C15": "check not built yet in this session (planned, DESIGN.md 6/C15)",
 "C16": "check not built yet in this session (planned, DESIGN.md 6/C16)",
 "C17": "check not built yet in this session (planned, DESIGN.md 6/C17)",
 "C18": "check not built yet in this session (planned, DESIGN.md 6/C18)",
 "C19": "check not built yet in this session (planned, DESIGN.md 6/C19)",
 "C20": "check not built yet in this session (planned, DESIGN.md 6/C20)",
}
try:
    exec(open("/verif/tools/manifest_extra.py").read())
except FileNotFoundError:
    pass

m = {
 "version": 1,
 "setup_cmd": "cd /verif/harness && CARGO_NET_OFFLINE=true cargo build --release && CARGO_NET_OFFLINE=true CARGO_PROFILE_RELEASE_DEBUG_ASSERTIONS=true cargo build --release --target-dir /verif/harness/target/da",
 "hooks": {
   "guard": "circ_verif",
   "enable": "RUSTFLAGS=--cfg circ_verif (set in /verif/harness/.cargo/config.toml; a rustc cfg, not a cargo feature)",
   "baseline_off_cmd": "cd /repo && cargo test --workspace --no-fail-fast --offline",
   "source_commits": HOOK_COMMITS,
   "add_only": True,
 },
 "engines": [
   {"name": "vcheck", "path": "/verif/harness", "serves_properties": sorted(CHECKS.keys()),
    "kind_free_text": "Rust binary: proptest-generated cases (programs, schedules, epoch alignments, template parameters), one forked child per case, cooperative scheduler over cfg-gated yield points, shadow-model oracles, shrinking to replay files"},
 ],
 "checks": [],
 "notes": "All checks: ./check <ID> quick|thorough; replay: ./check replay <file>. Exit 0 held / 1 VIOLATION / 2 inconclusive (build failure, timeout, internal error). Known findings: /verif/known_findings.json.",
 "not_applicable": [{"property_id": k, "reason": v} for k, v in sorted(NOT_YET.items()) if k not in CHECKS],
}
for pid in sorted(CHECKS):
    tech, ref, text = CHECKS[pid]
    m["checks"].append({
        "property_id": pid,
        "quick_cmd": f"./check {pid} quick",
        "thorough_cmd": f"./check {pid} thorough",
        "evidence_file": f"/verif/evidence/{pid}.json",
        "replay_cmd_template": "./check replay {path}",
        "engine": "vcheck",
        "level_claimed": {"category": "exploration", "text": text, "design_ref": f"DESIGN.md section {ref}"},
        "level_note": LEVEL_NOTE,
        "technique": tech,
    })
json.dump(m, open("/verif/MANIFEST.json", "w"), indent=1)
print("checks:", len(m["checks"]), "not_applicable:", len(m["not_applicable"]))
