//! Bounded-exhaustive schedule exploration of two-thread micro-programs: for each program and both
//! start orders, *every* pair of preemption points (k, m) is run: thread A executes k atomic steps
//! and is parked, thread B executes m steps and is parked, A runs to its end, B runs to its end.
//! (Preemption-bounded exploration with two context switches; the quick tier takes every 3rd k
//! and m.) The programs are the few-operation races the counting-layer properties are about.

use serde_json::Value;

use crate::rcgen::{C, TB, WC};
use crate::rcworld::{RcCase, K};
use crate::runner::Tier;
use crate::sched::{Directive, Until};

pub struct Micro {
    pub name: &'static str,
    /// emits the setup (with `run` directives) and then the racing ops of threads 0 (A) and 1 (B)
    /// without running them
    pub build: fn(&mut TB),
    /// upper bounds on the number of atomic steps A and B take in the racing part
    pub ka: u32,
    pub kb: u32,
}

const A: usize = 0;
const B: usize = 1;

/// common setup: X in A's slot, a Weak to X in B's slot (passed through wroot0)
fn setup_x_weak(t: &mut TB) {
    t.new_node(A, "X", None, None, 3, 10);
    t.downgrade(A, "X", "w");
    t.pin(A);
    t.wstore(A, WC::Root(0), Some("w"), 0);
    t.unpin(A, 0);
    t.run(A);
    t.pin(B);
    t.wload(B, WC::Root(0), 0, "ws");
    t.wcounted(B, "ws", "w");
    t.unpin(B, 0);
    t.run(B);
}

/// X owned by both threads (passed through root0), optionally a Weak in B
fn setup_two_owners(t: &mut TB, weak_in_b: bool) {
    t.new_node(A, "X", None, None, 3, 10);
    t.pin(A);
    t.clone_rc(A, "X", "Xc");
    t.store(A, C::Root(0), Some("Xc"), 0);
    t.unpin(A, 0);
    t.run(A);
    t.pin(B);
    t.load(B, C::Root(0), 0, "sx");
    t.counted(B, "sx", "X");
    t.unpin(B, 0);
    if weak_in_b {
        t.downgrade(B, "X", "w");
    }
    t.run(B);
    t.swap_null(A, C::Root(0), "Xs");
    t.drop_rc(A, "Xs");
    t.run(A);
}

/// P -> X under root0, X also reachable through root1; a Weak to X in B
fn setup_parent_child(t: &mut TB) {
    t.new_node(A, "X", None, None, 3, 40);
    t.downgrade(A, "X", "w");
    t.new_node(A, "P", Some("X"), None, 3, 0);
    t.pin(A);
    t.wstore(A, WC::Root(0), Some("w"), 0);
    t.store(A, C::Root(1), Some("X"), 0);
    t.unpin(A, 0);
    t.run(A);
    t.pin(B);
    t.wload(B, WC::Root(0), 0, "ws");
    t.wcounted(B, "ws", "w");
    t.unpin(B, 0);
    t.run(B);
}

pub const MICROS: &[Micro] = &[
    Micro {
        name: "last-drop || upgrade",
        build: |t| {
            setup_x_weak(t);
            t.drop_rc(A, "X");
            t.advance(A, 4);
            t.upgrade(B, "w", true, "Xu");
            t.deref(B, "Xu");
            t.advance(B, 4);
            t.deref(B, "Xu");
            t.drop_rc(B, "Xu");
            t.advance(B, 4);
        },
        ka: 202,
        kb: 284,
    },
    Micro {
        name: "last-drop+collect || wsnapshot-upgrade+counted",
        build: |t| {
            setup_x_weak(t);
            t.drop_rc(A, "X");
            t.advance(A, 5);
            t.pin(B);
            t.wsnapshot(B, "w", 0, "ws");
            t.wupgrade(B, "ws", true, "s");
            t.deref_s(B, "s");
            t.counted(B, "s", "Xu");
            t.unpin(B, 0);
            t.deref(B, "Xu");
            t.drop_rc(B, "Xu");
            t.advance(B, 4);
        },
        ka: 240,
        kb: 190,
    },
    Micro {
        name: "drop || drop (two owners), then upgrade",
        build: |t| {
            setup_two_owners(t, true);
            t.drop_rc(A, "X");
            t.advance(A, 4);
            t.drop_rc(B, "X");
            t.advance(B, 2);
            t.upgrade(B, "w", true, "Xu");
            t.deref(B, "Xu");
            t.advance(B, 4);
            t.deref(B, "Xu");
            t.drop_rc(B, "Xu");
        },
        ka: 178,
        kb: 292,
    },
    Micro {
        name: "unlink+drop+collect || pin+load+deref+counted",
        build: |t| {
            t.new_node(A, "X", None, None, 3, 10);
            t.pin(A);
            t.store(A, C::Root(0), Some("X"), 0);
            t.unpin(A, 0);
            t.run(A);
            t.swap_null(A, C::Root(0), "X");
            t.drop_rc(A, "X");
            t.advance(A, 5);
            t.pin(B);
            t.load(B, C::Root(0), 0, "s");
            t.deref_s(B, "s");
            t.counted(B, "s", "Xb");
            t.deref_s(B, "s");
            t.unpin(B, 0);
            t.deref(B, "Xb");
            t.drop_rc(B, "Xb");
            t.advance(B, 4);
        },
        ka: 221,
        kb: 179,
    },
    Micro {
        name: "store-over+collect || pin+load+counted",
        build: |t| {
            t.new_node(A, "X", None, None, 3, 10);
            t.new_node(A, "Y", None, None, 3, 20);
            t.pin(A);
            t.store(A, C::Root(0), Some("X"), 0);
            t.unpin(A, 0);
            t.run(A);
            t.pin(A);
            t.store(A, C::Root(0), Some("Y"), 0);
            t.unpin(A, 0);
            t.advance(A, 5);
            t.pin(B);
            t.load(B, C::Root(0), 0, "s");
            t.deref_s(B, "s");
            t.counted(B, "s", "Xb");
            t.unpin(B, 0);
            t.deref(B, "Xb");
            t.drop_rc(B, "Xb");
            t.advance(B, 4);
        },
        ka: 223,
        kb: 191,
    },
    Micro {
        name: "cas || cas on one cell",
        build: |t| {
            t.new_node(A, "X", None, None, 3, 10);
            t.new_node(A, "D1", None, None, 3, 20);
            t.new_node(B, "D2", None, None, 3, 30);
            t.pin(A);
            t.store(A, C::Root(0), Some("X"), 0);
            t.unpin(A, 0);
            t.run(A);
            t.run(B);
            t.pin(A);
            t.load(A, C::Root(0), 0, "e");
            t.cas(A, C::Root(0), Some("e"), Some("D1"), true, "prev", "cur");
            t.raw(A, K::Deref, 0, 0, 0);
            t.unpin(A, 0);
            t.advance(A, 3);
            t.pin(B);
            t.load(B, C::Root(0), 0, "e");
            t.cas(B, C::Root(0), Some("e"), Some("D2"), true, "prev", "cur");
            t.raw(B, K::Deref, 0, 0, 0);
            t.raw(B, K::DerefS, 1, 0, 0);
            t.unpin(B, 0);
            t.advance(B, 3);
        },
        ka: 145,
        kb: 184,
    },
    Micro {
        name: "cas_tag || cas_tag (two markers)",
        build: |t| {
            t.new_node(A, "X", None, None, 3, 10);
            t.pin(A);
            t.store(A, C::Root(0), Some("X"), 0);
            t.unpin(A, 0);
            t.run(A);
            t.pin(A);
            t.load(A, C::Root(0), 0, "e");
            t.cas_tag(A, C::Root(0), "e", 1, "r");
            t.unpin(A, 0);
            t.pin(B);
            t.load(B, C::Root(0), 0, "e");
            t.cas_tag(B, C::Root(0), "e", 1, "r");
            t.load(B, C::Root(0), 0, "after");
            t.unpin(B, 0);
        },
        ka: 57,
        kb: 57,
    },
    Micro {
        name: "last-weak-drop+collect || pin+wload+wcounted+upgrade",
        build: |t| {
            t.new_node(A, "X", None, None, 3, 10);
            t.downgrade(A, "X", "w");
            t.pin(A);
            t.wstore(A, WC::Root(0), Some("w"), 0);
            t.unpin(A, 0);
            t.drop_rc(A, "X");
            t.advance(A, 5);
            t.run(A);
            t.wswap(A, WC::Root(0), None, "wl");
            t.wdrop(A, "wl");
            t.advance(A, 5);
            t.pin(B);
            t.wload(B, WC::Root(0), 0, "ws");
            t.wcounted(B, "ws", "wr");
            t.wupgrade(B, "ws", false, "s");
            t.unpin(B, 0);
            t.upgrade(B, "wr", false, "Xn");
            t.advance(B, 3);
            t.wdrop(B, "wr");
            t.advance(B, 4);
        },
        ka: 399,
        kb: 284,
    },
    Micro {
        name: "parent-drop+collect (cascade) || upgrade child",
        build: |t| {
            setup_parent_child(t);
            t.swap_null(A, C::Root(1), "X1");
            t.drop_rc(A, "X1");
            t.drop_rc(A, "P");
            t.advance(A, 6);
            t.upgrade(B, "w", true, "Xu");
            t.deref(B, "Xu");
            t.advance(B, 3);
            t.deref(B, "Xu");
            t.drop_rc(B, "Xu");
            t.advance(B, 4);
            t.upgrade(B, "w", false, "Xv");
        },
        ka: 295,
        kb: 296,
    },
    Micro {
        name: "parent-drop+collect (cascade) || pin+wupgrade child+deref",
        build: |t| {
            setup_parent_child(t);
            t.swap_null(A, C::Root(1), "X1");
            t.drop_rc(A, "X1");
            t.drop_rc(A, "P");
            t.advance(A, 6);
            t.pin(B);
            t.wsnapshot(B, "w", 0, "ws");
            t.wupgrade(B, "ws", true, "s");
            t.deref_s(B, "s");
            t.advance(B, 1);
            t.deref_s(B, "s");
            t.unpin(B, 0);
            t.advance(B, 4);
        },
        ka: 291,
        kb: 221,
    },
    Micro {
        name: "unlink child from second owner || pinned reader of child; parent dropped earlier",
        build: |t| {
            setup_parent_child(t);
            t.drop_rc(A, "P");
            t.advance(A, 2);
            t.run(A);
            t.swap_null(A, C::Root(1), "X1");
            t.drop_rc(A, "X1");
            t.advance(A, 4);
            t.pin(B);
            t.load(B, C::Root(1), 0, "s");
            t.deref_s(B, "s");
            t.advance(B, 1);
            t.deref_s(B, "s");
            t.counted(B, "s", "Xb");
            t.unpin(B, 0);
            t.deref(B, "Xb");
            t.drop_rc(B, "Xb");
            t.advance(B, 4);
        },
        ka: 295,
        kb: 221,
    },
    Micro {
        name: "iterator drop || drop of a yielded Rc",
        build: |t| {
            t.raw(A, K::NewIter, 2, 0, 32 | 3);
            t.raw(A, K::IterNext, 0, 0, 0);
            t.pin(A);
            t.raw(A, K::Store, 0, 0, 0);
            t.unpin(A, 0);
            t.run(A);
            t.pin(B);
            t.load(B, C::Root(0), 0, "s");
            t.counted(B, "s", "Y");
            t.unpin(B, 0);
            t.run(B);
            t.swap_null(A, C::Root(0), "Ys");
            t.drop_rc(A, "Ys");
            t.run(A);
            t.raw(A, K::IterDrop, 0, 0, 0);
            t.advance(A, 4);
            t.drop_rc(B, "Y");
            t.advance(B, 4);
        },
        ka: 176,
        kb: 208,
    },
    Micro {
        name: "weak cas || weak swap on one cell",
        build: |t| {
            t.new_node(A, "X", None, None, 3, 10);
            t.new_node(A, "Y", None, None, 3, 20);
            t.downgrade(A, "X", "wx");
            t.downgrade(A, "Y", "wy");
            t.downgrade(A, "Y", "wy2");
            t.pin(A);
            t.wstore(A, WC::Root(0), Some("wx"), 0);
            t.wstore(A, WC::Root(1), Some("wy2"), 0);
            t.unpin(A, 0);
            t.run(A);
            t.pin(B);
            t.wload(B, WC::Root(1), 0, "ys");
            t.wcounted(B, "ys", "wyb");
            t.unpin(B, 0);
            t.run(B);
            t.pin(A);
            t.wload(A, WC::Root(0), 0, "e");
            t.wcas(A, WC::Root(0), Some("e"), Some("wy"), true, "prev", "cur");
            t.unpin(A, 0);
            t.advance(A, 3);
            t.wswap(B, WC::Root(0), Some("wyb"), "old");
            t.wdrop(B, "old");
            t.advance(B, 3);
        },
        ka: 171,
        kb: 177,
    },
];

/// The i-th case of the enumeration, or None past the end.
pub fn enumerate(tier: Tier, i: u64) -> Option<Value> {
    let stride: u32 = tier.pick(4, 1);
    let mut rest = i;
    for m in MICROS {
        let (na, nb) = ((m.ka + stride - 1) / stride + 1, (m.kb + stride - 1) / stride + 1);
        let per = 2 * na as u64 * nb as u64;
        if rest >= per {
            rest -= per;
            continue;
        }
        let order = (rest / (na as u64 * nb as u64)) as u32;
        let r2 = rest % (na as u64 * nb as u64);
        let (ia, ib) = ((r2 / nb as u64) as u32, (r2 % nb as u64) as u32);
        // the last index of each dimension means "not preempted"
        let k = if ia + 1 == na { u32::MAX / 2 } else { ia * stride };
        let mm = if ib + 1 == nb { u32::MAX / 2 } else { ib * stride };
        let mut t = TB::new(2);
        (m.build)(&mut t);
        let (first, second) = if order == 0 { (A, B) } else { (B, A) };
        let (kf, ks) = if order == 0 { (k, mm) } else { (mm, k) };
        t.sched.push(Directive { thread: first as u8, until: Until::Steps(kf) });
        t.sched.push(Directive { thread: second as u8, until: Until::Steps(ks) });
        t.sched.push(Directive { thread: first as u8, until: Until::End });
        t.sched.push(Directive { thread: second as u8, until: Until::End });
        let mut v = t.finish((i % 16) as u8, "micro");
        if let Some(o) = v.as_object_mut() {
            o.insert("tmpl".into(), Value::String(format!("micro:{}", m.name)));
        }
        let _: RcCase = serde_json::from_value(v.clone()).ok()?;
        return Some(v);
    }
    None
}

pub fn total(tier: Tier) -> u64 {
    let stride: u32 = tier.pick(4, 1);
    MICROS
        .iter()
        .map(|m| 2 * ((m.ka + stride - 1) / stride + 1) as u64 * ((m.kb + stride - 1) / stride + 1) as u64)
        .sum()
}
