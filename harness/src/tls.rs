//! C20: the library is usable at any point of a thread's life, including inside thread-local
//! destructors that run after the thread's own participant handle has been destroyed.

use std::cell::RefCell;
use std::sync::atomic::{AtomicU64, Ordering::SeqCst};
use std::sync::Mutex;

use circ::{cs, AtomicRc, Rc, RcObject, Weak};
use proptest::prelude::*;
use proptest::strategy::BoxedStrategy;
use serde::{Deserialize, Serialize};
use serde_json::Value;

use crate::runner::{violation, Report};

static CREATED: AtomicU64 = AtomicU64::new(0);
static DROPPED: AtomicU64 = AtomicU64::new(0);
static FREED: AtomicU64 = AtomicU64::new(0);
static ACTIONS_RUN: AtomicU64 = AtomicU64::new(0);
static ACTIONS_AFTER_HANDLE: AtomicU64 = AtomicU64::new(0);

pub struct TNode {
    v: u64,
    next: AtomicRc<TNode>,
}
unsafe impl RcObject for TNode {
    fn pop_edges(&mut self, out: &mut Vec<Rc<Self>>) {
        out.push(self.next.take());
    }
}
impl Drop for TNode {
    fn drop(&mut self) {
        if self.v != 0x7157 {
            violation("C20", "O-teardown", "O-teardown/payload", "payload corrupted at Drop");
        }
        self.v = 0;
        DROPPED.fetch_add(1, SeqCst);
    }
}
fn mk() -> Rc<TNode> {
    CREATED.fetch_add(1, SeqCst);
    Rc::new(TNode {
        v: 0x7157,
        next: AtomicRc::null(),
    })
}
fn ev(kind: u32, _addr: usize, _aux: usize) {
    if kind == circ::verif::ev::DEALLOC {
        FREED.fetch_add(1, SeqCst);
    }
}

#[derive(Serialize, Deserialize, Clone, Copy, Debug, PartialEq, Eq)]
pub enum Act {
    Pin,
    NestedPin,
    PinFlush,
    DropRc,
    DropWeak,
    NewDrop,
    NewChainDrop,
    Upgrade,
    LoadShared,
    StoreShared,
    SwapShared,
    Rounds,
    Reactivate,
}
const ACTS: [Act; 13] = [
    Act::Pin,
    Act::NestedPin,
    Act::PinFlush,
    Act::DropRc,
    Act::DropWeak,
    Act::NewDrop,
    Act::NewChainDrop,
    Act::Upgrade,
    Act::LoadShared,
    Act::StoreShared,
    Act::SwapShared,
    Act::Rounds,
    Act::Reactivate,
];

#[derive(Serialize, Deserialize, Clone, Debug)]
pub struct TlsCase {
    pub align: u8,
    /// order in which the thread initialises its thread-locals: 0,1,2 = harness objects A,B,C;
    /// 3 = circ's participant handle (first call of cs()). Objects initialised before the handle
    /// are destroyed after it. Entries may be missing (object not used at all).
    pub init_order: Vec<u8>,
    /// what each object's destructor does
    pub dtor_actions: Vec<Vec<(Act, u8)>>,
    /// what the thread body does after initialisation
    pub body: Vec<(Act, u8)>,
    /// Rcs dropped at the end of the body without flushing (pending deferrals at exit)
    pub pending: u8,
    /// how many Rc / Weak each object owns
    pub owned: u8,
    /// a large number of further Rcs owned by the first object that is initialised before the
    /// handle (they are dropped inside its destructor, after the handle is gone)
    #[serde(default)]
    pub owned_many: u32,
    /// stack size of the surviving thread that reclaims afterwards (0 = the main thread)
    #[serde(default)]
    pub survivor_stack_kib: u32,
    /// each of the `owned_many` pointers is the head of a chain of this many further nodes
    #[serde(default)]
    pub chain_len: u8,
    /// every node of those chains has been weakly referenced once (its disposal then defers the
    /// release of the block)
    #[serde(default)]
    pub chain_weaked: bool,
    /// collection rounds the destructor runs after releasing them
    #[serde(default)]
    pub dtor_rounds: u8,
    /// stack size of the short-lived thread itself (0 = Rust's default of 2 MiB)
    #[serde(default)]
    pub thread_stack_kib: u32,
}

/// A thread-local destructor that, after the handle is gone, releases many small structures and
/// then runs collection rounds itself: the collection, the disposal passes inside it and whatever
/// those defer all happen on temporary participants.
pub fn teardown_collects_strategy(t: crate::runner::Tier) -> BoxedStrategy<Value> {
    let maxn = t.pick(3_000u32, 12_000u32);
    (
        0u8..20,
        (6.0f64..(maxn as f64).log2()).prop_map(|e| e.exp2() as u32),
        prop_oneof![1 => Just(0u8), 1 => Just(3u8), 1 => Just(40u8), 1 => Just(63u8), 3 => Just(64u8), 3 => Just(70u8), 3 => Just(100u8)],
        prop_oneof![3 => Just(true), 1 => Just(false)],
        4u8..12,
        prop_oneof![3 => Just(256u32), 2 => Just(512u32), 1 => Just(0u32)],
        prop_oneof![3 => Just(true), 1 => Just(false)],
    )
        .prop_map(|(align, owned_many, chain_len, chain_weaked, dtor_rounds, thread_stack_kib, handle_at_all)| {
            serde_json::to_value(TlsCase {
                align,
                init_order: if handle_at_all { vec![0, 3] } else { vec![0] },
                dtor_actions: vec![vec![], vec![], vec![]],
                body: vec![],
                pending: 0,
                owned: 0,
                owned_many,
                survivor_stack_kib: 0,
                chain_len,
                chain_weaked,
                dtor_rounds,
                thread_stack_kib,
            })
            .unwrap()
        })
        .boxed()
}

/// A thread-local destructor that releases a large collection after the handle is gone (each
/// release is a critical section of a temporary participant), then an ordinary thread collects.
pub fn pile_up_strategy(t: crate::runner::Tier) -> BoxedStrategy<Value> {
    let maxn = t.pick(400_000u32, 1_600_000u32);
    (
        0u8..20,
        (10.0f64..(maxn as f64).log2()).prop_map(|e| e.exp2() as u32),
        prop_oneof![Just(256u32), Just(512u32), Just(2048u32), Just(0u32)],
        proptest::collection::vec((0usize..ACTS.len(), any::<u8>()).prop_map(|(i, a)| (ACTS[i], a)), 0..3),
        any::<bool>(),
    )
        .prop_map(|(align, owned_many, survivor_stack_kib, acts, handle_at_all)| {
            serde_json::to_value(TlsCase {
                align,
                init_order: if handle_at_all { vec![0, 3] } else { vec![0] },
                dtor_actions: vec![acts, vec![], vec![]],
                body: vec![],
                pending: 0,
                owned: 0,
                owned_many,
                survivor_stack_kib,
                chain_len: 0,
                chain_weaked: false,
                dtor_rounds: 0,
                thread_stack_kib: 0,
            })
            .unwrap()
        })
        .boxed()
}

pub fn strategy() -> BoxedStrategy<Value> {
    let act = (0usize..ACTS.len(), any::<u8>()).prop_map(|(i, a)| (ACTS[i], a));
    (
        0u8..20,
        Just(vec![0u8, 1, 2, 3]).prop_shuffle().prop_flat_map(|v| (Just(v), 1usize..=4)).prop_map(|(v, k)| v[..k].to_vec()),
        proptest::collection::vec(proptest::collection::vec(act.clone(), 0..8), 3..=3),
        proptest::collection::vec(act, 0..8),
        prop_oneof![Just(0u8), 0u8..20, 60u8..131],
        0u8..4,
    )
        .prop_map(|(align, init_order, dtor_actions, body, pending, owned)| {
            serde_json::to_value(TlsCase {
                align,
                init_order,
                dtor_actions,
                body,
                pending,
                owned,
                owned_many: 0,
                survivor_stack_kib: 0,
                chain_len: 0,
                chain_weaked: false,
                dtor_rounds: 0,
                thread_stack_kib: 0,
            })
            .unwrap()
        })
        .boxed()
}

struct Shared {
    cell: AtomicRc<TNode>,
}
static SHARED: Mutex<Option<&'static Shared>> = Mutex::new(None);
fn shared() -> &'static Shared {
    SHARED.lock().unwrap().unwrap()
}

struct Obj {
    idx: usize,
    actions: Vec<(Act, u8)>,
    rcs: Vec<Rc<TNode>>,
    weaks: Vec<Weak<TNode>>,
    /// was circ's handle initialised after this object (then it is gone when our Drop runs)?
    handle_later: bool,
    /// collection rounds to run after everything owned has been released
    rounds_after: u8,
}

fn perform(a: Act, arg: u8, rcs: &mut Vec<Rc<TNode>>, weaks: &mut Vec<Weak<TNode>>) {
    match a {
        Act::Pin => drop(cs()),
        Act::NestedPin => {
            let g1 = cs();
            let g2 = cs();
            drop(g1);
            drop(g2);
        }
        Act::PinFlush => {
            let g = cs();
            g.flush();
        }
        Act::DropRc => {
            if let Some(r) = rcs.pop() {
                drop(r);
            }
        }
        Act::DropWeak => {
            if let Some(w) = weaks.pop() {
                drop(w);
            }
        }
        Act::NewDrop => drop(mk()),
        Act::NewChainDrop => {
            let mut head = mk();
            for _ in 0..(arg % 5) {
                let n = mk();
                let g = cs();
                n.as_ref().unwrap().next.store(head, SeqCst, &g);
                head = n;
            }
            drop(head);
        }
        Act::Upgrade => {
            if let Some(w) = weaks.last() {
                if let Some(r) = w.upgrade() {
                    if r.as_ref().map(|n| n.v) != Some(0x7157) {
                        violation("C20", "O-teardown", "O-teardown/upgrade-dead", "upgrade inside a destructor returned a dead object");
                    }
                }
            }
        }
        Act::LoadShared => {
            let g = cs();
            let s = shared().cell.load(SeqCst, &g);
            if let Some(n) = s.as_ref() {
                if n.v != 0x7157 {
                    violation("C20", "O-teardown", "O-teardown/load-dead", "a loaded snapshot refers to a dead object");
                }
            }
            if arg % 2 == 0 {
                rcs.push(s.counted());
                if rcs.last().unwrap().is_null() {
                    rcs.pop();
                }
            }
        }
        Act::StoreShared => {
            let g = cs();
            shared().cell.store(mk(), SeqCst, &g);
        }
        Act::SwapShared => {
            let old = shared().cell.swap(if arg % 2 == 0 { mk() } else { Rc::null() }, SeqCst);
            drop(old);
        }
        Act::Rounds => {
            for _ in 0..(arg % 6) {
                let g = cs();
                g.flush();
            }
        }
        Act::Reactivate => {
            let mut g = cs();
            g.reactivate();
            if arg % 2 == 0 {
                g.reactivate_after(|| drop(cs()));
            }
        }
    }
    ACTIONS_RUN.fetch_add(1, SeqCst);
}

impl Drop for Obj {
    fn drop(&mut self) {
        let acts = std::mem::take(&mut self.actions);
        for (a, arg) in acts {
            perform(a, arg, &mut self.rcs, &mut self.weaks);
            if self.handle_later {
                ACTIONS_AFTER_HANDLE.fetch_add(1, SeqCst);
            }
        }
        let _ = self.idx;
        if self.rounds_after > 0 {
            // release everything that is owned, then collect, all inside the destructor
            self.rcs.clear();
            self.weaks.clear();
            for _ in 0..self.rounds_after {
                let g = cs();
                g.flush();
            }
        }
        // whatever is still owned is dropped now, inside the destructor
    }
}

thread_local! {
    static OBJ_A: RefCell<Option<Obj>> = const { RefCell::new(None) };
    static OBJ_B: RefCell<Option<Obj>> = const { RefCell::new(None) };
    static OBJ_C: RefCell<Option<Obj>> = const { RefCell::new(None) };
}

// `RefCell<Option<Obj>>` needs a destructor, so each of these registers its TLS destructor at
// first access, which is what fixes the destruction order relative to circ's handle.
fn install(idx: usize, o: Obj) {
    match idx {
        0 => OBJ_A.with(|c| *c.borrow_mut() = Some(o)),
        1 => OBJ_B.with(|c| *c.borrow_mut() = Some(o)),
        _ => OBJ_C.with(|c| *c.borrow_mut() = Some(o)),
    }
}

pub fn exec(_prop: &str, v: &Value) -> Report {
    let case: TlsCase = serde_json::from_value(v.clone()).expect("bad TlsCase");
    circ::verif::set_event_hook(Some(ev));
    for _ in 0..case.align {
        let g = cs();
        g.flush();
    }
    drop(cs());
    let sh: &'static Shared = Box::leak(Box::new(Shared { cell: AtomicRc::null() }));
    *SHARED.lock().unwrap() = Some(sh);
    let c2 = case.clone();
    let mut builder = std::thread::Builder::new().name("short-lived".into());
    if case.thread_stack_kib > 0 {
        builder = builder.stack_size(case.thread_stack_kib as usize * 1024);
    }
    if case.dtor_rounds > 0 {
        crate::runner::crash_context("destructor-collects-after-handle-is-gone");
    }
    let th = builder
        .spawn(move || {
            let c = c2;
            let mut handle_inited = false;
            // objects whose construction itself needs circ (they own Rcs) create them with the
            // handle possibly not yet initialised: then constructing them initialises it first.
            // To keep the generated order exact, owned pointers are created only for objects that
            // are initialised after the handle; the others get theirs moved in later from the body.
            let mut late_fill: Vec<usize> = Vec::new();
            for &what in &c.init_order {
                if what == 3 {
                    drop(cs());
                    handle_inited = true;
                } else {
                    let idx = what as usize;
                    let mut o = Obj {
                        idx,
                        actions: c.dtor_actions[idx].clone(),
                        rcs: Vec::new(),
                        weaks: Vec::new(),
                        handle_later: !handle_inited,
                        rounds_after: 0,
                    };
                    if handle_inited {
                        for _ in 0..c.owned {
                            let r = mk();
                            o.weaks.push(r.downgrade());
                            o.rcs.push(r);
                        }
                    } else {
                        late_fill.push(idx);
                    }
                    let fill_many = !handle_inited && c.owned_many > 0 && idx == c.init_order.iter().cloned().find(|w| *w != 3).unwrap_or(9) as usize;
                    install(idx, o);
                    if fill_many {
                        // The object's TLS destructor is registered now. Filling it may use the
                        // library (dropping a Weak enters a critical section) and thereby create
                        // the participant handle: later than the object, so the handle is
                        // destroyed first.
                        let fill = |o: &mut Obj| {
                            for _ in 0..c.owned_many {
                                let mut head = mk();
                                if c.chain_weaked {
                                    drop(head.downgrade());
                                }
                                for _ in 0..c.chain_len {
                                    CREATED.fetch_add(1, SeqCst);
                                    let n = Rc::new(TNode { v: 0x7157, next: AtomicRc::from(head) });
                                    if c.chain_weaked {
                                        drop(n.downgrade());
                                    }
                                    head = n;
                                }
                                o.rcs.push(head);
                            }
                            o.rounds_after = c.dtor_rounds;
                        };
                        match idx {
                            0 => OBJ_A.with(|x| fill(x.borrow_mut().as_mut().unwrap())),
                            1 => OBJ_B.with(|x| fill(x.borrow_mut().as_mut().unwrap())),
                            _ => OBJ_C.with(|x| fill(x.borrow_mut().as_mut().unwrap())),
                        }
                        if c.chain_weaked {
                            handle_inited = true;
                        }
                    }
                }
            }
            // body
            let mut rcs = Vec::new();
            let mut weaks = Vec::new();
            let uses_circ_in_body = !c.body.is_empty() || c.pending > 0 || (c.owned > 0 && !late_fill.is_empty() && c.init_order.contains(&3));
            for (a, arg) in &c.body {
                perform(*a, *arg, &mut rcs, &mut weaks);
            }
            // objects initialised before the handle get their pointers now (only if the thread
            // uses circ outside destructors at all; otherwise circ is first used inside a destructor)
            if c.init_order.contains(&3) {
                for idx in late_fill {
                    let fill = |o: &mut Obj| {
                        for _ in 0..c.owned {
                            let r = mk();
                            o.weaks.push(r.downgrade());
                            o.rcs.push(r);
                        }
                    };
                    match idx {
                        0 => OBJ_A.with(|x| fill(x.borrow_mut().as_mut().unwrap())),
                        1 => OBJ_B.with(|x| fill(x.borrow_mut().as_mut().unwrap())),
                        _ => OBJ_C.with(|x| fill(x.borrow_mut().as_mut().unwrap())),
                    }
                }
            }
            // pending deferrals at exit
            let mut tmp = Vec::new();
            for _ in 0..c.pending {
                tmp.push(mk());
            }
            drop(tmp);
            drop(rcs);
            drop(weaks);
            uses_circ_in_body
        })
        .unwrap();
    let res = th.join();
    let uses_circ_in_body = match res {
        Ok(b) => b,
        Err(e) => {
            let msg = if let Some(s) = e.downcast_ref::<String>() {
                s.clone()
            } else if let Some(s) = e.downcast_ref::<&str>() {
                s.to_string()
            } else {
                "panic".into()
            };
            violation("C20", "O-teardown", "O-teardown/panic", &format!("the short-lived thread panicked: {}", msg));
        }
    };
    // the surviving thread reclaims everything the exited thread produced
    let survive = move || {
        drop(sh.cell.swap(Rc::null(), SeqCst));
        let created = CREATED.load(SeqCst);
        let bound = 64 + 4 * created;
        let mut rounds = 0;
        while DROPPED.load(SeqCst) < created || FREED.load(SeqCst) < created {
            if rounds > bound {
                violation(
                    "C20",
                    "O-teardown",
                    "O-teardown/leak",
                    &format!("{} objects were created by the short-lived thread (and its destructors); after it exited and {} collection rounds by the surviving thread only {} were destructed and {} freed", created, rounds, DROPPED.load(SeqCst), FREED.load(SeqCst)),
                );
            }
            let g = cs();
            g.flush();
            drop(g);
            rounds += 1;
        }
        rounds
    };
    let rounds = if case.survivor_stack_kib == 0 {
        survive()
    } else {
        crate::runner::crash_context("survivor-collects-after-teardown");
        match std::thread::Builder::new().stack_size(case.survivor_stack_kib as usize * 1024).spawn(survive).unwrap().join() {
            Ok(r) => r,
            Err(_) => violation("C20", "O-teardown", "O-teardown/survivor-panic", "the surviving thread panicked while collecting"),
        }
    };
    let created = CREATED.load(SeqCst);
    let mut rep = Report::default();
    rep.nontrivial = ACTIONS_AFTER_HANDLE.load(SeqCst) >= 1 || (case.owned_many > 0 && case.init_order.first() != Some(&3));
    rep.count("objects_created", created);
    rep.count("destructor_actions", ACTIONS_RUN.load(SeqCst));
    rep.count("destructor_actions_after_handle_destroyed", ACTIONS_AFTER_HANDLE.load(SeqCst));
    rep.count("quiesce_rounds", rounds);
    if !case.init_order.contains(&3) && !uses_circ_in_body {
        rep.label("circ-first-used-inside-destructor");
    }
    if case.dtor_rounds > 0 {
        rep.label("destructor-collects-after-handle-is-gone");
    }
    if case.owned_many > 0 {
        rep.label("large-collection-released-inside-destructor");
        rep.count("released_inside_destructor_log2", (32 - case.owned_many.leading_zeros()) as u64);
    }
    if case.pending >= 64 {
        rep.label("exit-with->=64-pending");
    }
    rep
}
