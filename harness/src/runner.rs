//! Fork-per-case execution, proptest-driven shards, evidence and verdicts.

use std::collections::{BTreeMap, BTreeSet};
use std::io::{Read, Write};
use std::os::unix::io::FromRawFd;
use std::sync::atomic::{AtomicI32, Ordering};
use std::time::Instant;

use proptest::strategy::{BoxedStrategy, Strategy, ValueTree};
use proptest::test_runner::{Config, RngAlgorithm, TestRng, TestRunner};
use serde::{Deserialize, Serialize};
use serde_json::Value;

#[derive(Clone, Copy, PartialEq, Eq, Debug)]
pub enum Tier {
    Quick,
    Thorough,
}

impl Tier {
    pub fn name(self) -> &'static str {
        match self {
            Tier::Quick => "quick",
            Tier::Thorough => "thorough",
        }
    }
    pub fn parse(s: &str) -> Option<Tier> {
        match s {
            "quick" => Some(Tier::Quick),
            "thorough" => Some(Tier::Thorough),
            _ => None,
        }
    }
    /// `q` for quick, `t` for thorough.
    pub fn pick<T>(self, q: T, t: T) -> T {
        match self {
            Tier::Quick => q,
            Tier::Thorough => t,
        }
    }
}

#[derive(Serialize, Deserialize, Clone, Debug, PartialEq, Eq, Default)]
pub struct Violation {
    pub property: String,
    pub oracle: String,
    pub signature: String,
    pub detail: String,
}

/// What one executed case reports back from the child.
#[derive(Serialize, Deserialize, Clone, Debug, Default)]
pub struct Report {
    pub violation: Option<Violation>,
    /// Non-trivial by the rule of the property being checked (measured inside the child).
    pub nontrivial: bool,
    pub counters: BTreeMap<String, u64>,
    pub labels: Vec<String>,
}

impl Report {
    pub fn count(&mut self, k: &str, n: u64) {
        *self.counters.entry(k.to_string()).or_insert(0) += n;
    }
    pub fn label(&mut self, l: &str) {
        if !self.labels.iter().any(|x| x == l) {
            self.labels.push(l.to_string());
        }
    }
}

#[derive(Debug, Clone)]
pub enum Outcome {
    Done(Report),
    Crash(String),
    Timeout,
    Internal(String),
}

static CHILD_FD: AtomicI32 = AtomicI32::new(-1);

/// Inside a child: report a violation and terminate immediately (the first oracle trip ends the
/// case; nothing is executed on corrupted state).
pub fn violation(property: &str, oracle: &str, signature: &str, detail: &str) -> ! {
    let rep = Report {
        violation: Some(Violation {
            property: property.to_string(),
            oracle: oracle.to_string(),
            signature: signature.to_string(),
            detail: detail.to_string(),
        }),
        ..Default::default()
    };
    child_finish(&rep)
}

#[cfg(vcheck_cov)]
extern "C" {
    fn __llvm_profile_write_file() -> i32;
}

/// Called by a case before it enters a region in which the process may die for a reason that is
/// specific to the case (e.g. a small thread stack): the context becomes part of the signature of
/// a crash, `crash:<signal>/<context>`, so that such a crash is told apart from any other.
pub fn crash_context(ctx: &str) {
    let fd = CHILD_FD.load(Ordering::SeqCst);
    if fd >= 0 {
        let s = format!("CTX:{}\n", ctx.replace([':', '\n'], "_"));
        unsafe {
            libc::write(fd, s.as_ptr() as *const _, s.len());
            // the runtime's own message about the expected death would only clutter the output
            let null = libc::open(b"/dev/null\0".as_ptr() as *const _, libc::O_WRONLY);
            if null >= 0 {
                libc::dup2(null, 2);
            }
        }
    }
}

pub fn child_finish(rep: &Report) -> ! {
    #[cfg(vcheck_cov)]
    unsafe {
        __llvm_profile_write_file();
    }
    let fd = CHILD_FD.load(Ordering::SeqCst);
    let s = serde_json::to_vec(rep).unwrap();
    if fd >= 0 {
        let mut off = 0;
        while off < s.len() {
            let n = unsafe { libc::write(fd, s[off..].as_ptr() as *const _, s.len() - off) };
            if n <= 0 {
                break;
            }
            off += n as usize;
        }
        unsafe { libc::close(fd) };
    } else {
        // not in a forked child (direct mode)
        println!("{}", String::from_utf8_lossy(&s));
    }
    unsafe { libc::_exit(0) }
}

pub fn in_child() -> bool {
    CHILD_FD.load(Ordering::SeqCst) >= 0
}

fn signal_name(sig: i32) -> String {
    match sig {
        libc::SIGSEGV => "SIGSEGV".into(),
        libc::SIGABRT => "SIGABRT".into(),
        libc::SIGBUS => "SIGBUS".into(),
        libc::SIGILL => "SIGILL".into(),
        libc::SIGFPE => "SIGFPE".into(),
        libc::SIGKILL => "SIGKILL".into(),
        libc::SIGALRM => "SIGALRM".into(),
        n => format!("SIG{}", n),
    }
}

/// Runs `f` in a forked child with a wall-clock limit. The calling process must be
/// single-threaded.
pub fn run_forked(timeout_s: u32, f: &dyn Fn() -> Report) -> Outcome {
    let mut fds = [0i32; 2];
    if unsafe { libc::pipe(fds.as_mut_ptr()) } != 0 {
        return Outcome::Internal("pipe failed".into());
    }
    let _ = std::io::stdout().flush();
    let _ = std::io::stderr().flush();
    let pid = unsafe { libc::fork() };
    if pid < 0 {
        return Outcome::Internal("fork failed".into());
    }
    if pid == 0 {
        unsafe {
            libc::close(fds[0]);
            libc::alarm(timeout_s);
        }
        CHILD_FD.store(fds[1], Ordering::SeqCst);
        let res = std::panic::catch_unwind(std::panic::AssertUnwindSafe(f));
        match res {
            Ok(rep) => child_finish(&rep),
            Err(e) => {
                let msg = if let Some(s) = e.downcast_ref::<String>() {
                    s.clone()
                } else if let Some(s) = e.downcast_ref::<&str>() {
                    s.to_string()
                } else {
                    "panic".to_string()
                };
                // A panic on the child's main thread that is not an oracle trip: harness or
                // library panic. Reported as a crash of kind panic.
                let fd = CHILD_FD.load(Ordering::SeqCst);
                let s = format!("PANIC:{}", msg);
                unsafe {
                    libc::write(fd, s.as_ptr() as *const _, s.len());
                    libc::_exit(0)
                }
            }
        }
    }
    unsafe { libc::close(fds[1]) };
    let mut file = unsafe { std::fs::File::from_raw_fd(fds[0]) };
    let mut buf = Vec::new();
    let _ = file.read_to_end(&mut buf);
    drop(file);
    let mut status = 0i32;
    loop {
        let r = unsafe { libc::waitpid(pid, &mut status, 0) };
        if r == pid {
            break;
        }
        if r < 0 {
            let e = std::io::Error::last_os_error();
            if e.raw_os_error() == Some(libc::EINTR) {
                continue;
            }
            return Outcome::Internal(format!("waitpid: {}", e));
        }
    }
    let mut ctx = String::new();
    if buf.starts_with(b"CTX:") {
        let end = buf.iter().position(|b| *b == b'\n').unwrap_or(buf.len() - 1);
        ctx = format!("/{}", String::from_utf8_lossy(&buf[4..end]));
        buf.drain(..=end);
    }
    if libc::WIFSIGNALED(status) {
        let sig = libc::WTERMSIG(status);
        if sig == libc::SIGALRM {
            return Outcome::Timeout;
        }
        if sig == libc::SIGKILL {
            // OOM killer or external kill: inconclusive
            return Outcome::Internal("child killed (SIGKILL)".into());
        }
        return Outcome::Crash(format!("{}{}", signal_name(sig), ctx));
    }
    if buf.starts_with(b"PANIC:") {
        return Outcome::Crash(format!(
            "panic:{}",
            String::from_utf8_lossy(&buf[6..])
                .chars()
                .take(200)
                .collect::<String>()
        ));
    }
    match serde_json::from_slice::<Report>(&buf) {
        Ok(r) => Outcome::Done(r),
        Err(e) => {
            if libc::WIFEXITED(status) && libc::WEXITSTATUS(status) != 0 {
                Outcome::Crash(format!("exit:{}", libc::WEXITSTATUS(status)))
            } else {
                Outcome::Internal(format!(
                    "bad child report ({}): {:?}",
                    e,
                    String::from_utf8_lossy(&buf).chars().take(200).collect::<String>()
                ))
            }
        }
    }
}

// ------------------------------------------------------------------------------------------------

/// One generator family of a check.
pub struct Family {
    /// "" = the ordinary build; "da" = run by the build of the harness in which circ is compiled
    /// with debug assertions on (its panics are then part of what is observed)
    pub variant: &'static str,
    pub name: &'static str,
    pub strategy: fn(Tier) -> BoxedStrategy<Value>,
    /// total number of cases over all shards
    pub cases: fn(Tier) -> u64,
    /// enumerated family: the i-th case of a finite space (None past the end); such a family is
    /// explored completely (every `stride`-th index in the quick tier) instead of sampled
    pub enumerate: Option<fn(Tier, u64) -> Option<Value>>,
}

pub struct CheckDef {
    pub id: &'static str,
    pub families: Vec<Family>,
    /// Executes one case (inside the forked child). `prop` is the property being checked.
    pub exec: fn(&str, &Value) -> Report,
    pub rule: &'static str,
    pub timeout_s: fn(Tier) -> u32,
    pub assumptions: Vec<&'static str>,
    /// Number of shard processes (1 for memory-hungry checks).
    pub shards: fn(Tier) -> usize,
}

#[derive(Serialize, Deserialize, Clone, Debug)]
pub struct ReplayFile {
    pub property: String,
    pub family: String,
    pub case: Value,
    #[serde(default)]
    pub violation: Option<Violation>,
    #[serde(default)]
    pub note: String,
}

#[derive(Serialize, Deserialize, Clone, Debug)]
pub struct KnownFinding {
    pub property: String,
    pub signature: String,
    pub status: String,
    #[serde(default)]
    pub commit: Option<String>,
    pub description: String,
}

/// Where corpus, known findings, evidence and replays live (`/verif`; scratch mutant runs point it
/// elsewhere so that they never touch the real evidence).
pub fn root() -> String {
    std::env::var("VCHECK_ROOT").unwrap_or_else(|_| "/verif".to_string())
}

pub fn load_known() -> Vec<KnownFinding> {
    let p = &format!("{}/known_findings.json", root());
    match std::fs::read_to_string(p) {
        Ok(s) => {
            #[derive(Deserialize)]
            struct F {
                findings: Vec<KnownFinding>,
            }
            match serde_json::from_str::<F>(&s) {
                Ok(f) => f.findings,
                Err(e) => {
                    eprintln!("cannot parse {}: {}", p, e);
                    std::process::exit(2)
                }
            }
        }
        Err(_) => Vec::new(),
    }
}

fn is_open_known(known: &[KnownFinding], v: &Violation) -> bool {
    known
        .iter()
        .any(|k| k.status == "open" && k.property == v.property && k.signature == v.signature)
}

pub fn hash_value(v: &Value) -> u64 {
    // FNV-1a over the canonical JSON text (serde_json maps are BTreeMaps: stable order)
    let s = serde_json::to_string(v).unwrap();
    let mut h: u64 = 0xcbf29ce484222325;
    for b in s.as_bytes() {
        h ^= *b as u64;
        h = h.wrapping_mul(0x100000001b3);
    }
    h
}

fn mix(a: u64, b: u64) -> u64 {
    let mut x = a ^ b.wrapping_mul(0x9E3779B97F4A7C15);
    x ^= x >> 30;
    x = x.wrapping_mul(0xBF58476D1CE4E5B9);
    x ^= x >> 27;
    x = x.wrapping_mul(0x94D049BB133111EB);
    x ^= x >> 31;
    x
}

fn str_hash(s: &str) -> u64 {
    let mut h: u64 = 0xcbf29ce484222325;
    for b in s.as_bytes() {
        h ^= *b as u64;
        h = h.wrapping_mul(0x100000001b3);
    }
    h
}

#[derive(Serialize, Deserialize, Clone, Debug, Default)]
pub struct Failure {
    pub family: String,
    pub case: Value,
    pub violation: Violation,
    pub shrink_iters: u32,
}

#[derive(Serialize, Deserialize, Clone, Debug, Default)]
pub struct ShardOut {
    pub evaluations: u64,
    pub nontrivial_hashes: Vec<u64>,
    pub counters: BTreeMap<String, u64>,
    pub labels: BTreeMap<String, u64>,
    pub family_cases: BTreeMap<String, u64>,
    pub family_nontrivial: BTreeMap<String, u64>,
    pub samples: Vec<Value>,
    pub failures: Vec<Failure>,
    pub known_hits: BTreeMap<String, u64>,
    pub foreign_hits: BTreeMap<String, u64>,
    pub inconclusive: Vec<String>,
    pub shrink_evals: u64,
}

impl ShardOut {
    fn absorb_report(&mut self, fam: &str, case: &Value, rep: &Report) {
        self.evaluations += 1;
        *self.family_cases.entry(fam.to_string()).or_insert(0) += 1;
        if rep.nontrivial {
            self.nontrivial_hashes.push(hash_value(case));
            *self.family_nontrivial.entry(fam.to_string()).or_insert(0) += 1;
            if self.samples.len() < 2 {
                self.samples
                    .push(serde_json::json!({"family": fam, "case": case, "labels": rep.labels}));
            }
        }
        for (k, v) in &rep.counters {
            *self.counters.entry(k.clone()).or_insert(0) += v;
        }
        for l in &rep.labels {
            *self.labels.entry(l.clone()).or_insert(0) += 1;
        }
    }
    fn merge(&mut self, o: ShardOut) {
        self.evaluations += o.evaluations;
        self.nontrivial_hashes.extend(o.nontrivial_hashes);
        for (k, v) in o.counters {
            *self.counters.entry(k).or_insert(0) += v;
        }
        for (k, v) in o.labels {
            *self.labels.entry(k).or_insert(0) += v;
        }
        for (k, v) in o.family_cases {
            *self.family_cases.entry(k).or_insert(0) += v;
        }
        for (k, v) in o.family_nontrivial {
            *self.family_nontrivial.entry(k).or_insert(0) += v;
        }
        for s in o.samples {
            if self.samples.len() < 4 {
                self.samples.push(s);
            }
        }
        self.failures.extend(o.failures);
        for (k, v) in o.known_hits {
            *self.known_hits.entry(k).or_insert(0) += v;
        }
        for (k, v) in o.foreign_hits {
            *self.foreign_hits.entry(k).or_insert(0) += v;
        }
        self.inconclusive.extend(o.inconclusive);
        self.shrink_evals += o.shrink_evals;
    }
}

/// Executes one case with the retry-on-timeout policy.
fn exec_case(def: &CheckDef, tier: Tier, case: &Value) -> Outcome {
    let t = (def.timeout_s)(tier);
    let exec = def.exec;
    let id = def.id;
    let out = run_forked(t, &|| exec(id, case));
    if let Outcome::Timeout = out {
        // re-run once with 3x the budget so that machine load cannot fake a hang
        return run_forked(t * 3, &|| exec(id, case));
    }
    out
}

enum Class {
    Pass,
    Own(Violation),
    Known(Violation),
    Foreign(Violation),
    Inconclusive(String),
}

fn classify(def: &CheckDef, known: &[KnownFinding], out: &Outcome) -> Class {
    match out {
        Outcome::Done(rep) => match &rep.violation {
            None => Class::Pass,
            Some(v) => {
                if v.property != def.id {
                    Class::Foreign(v.clone())
                } else if is_open_known(known, v) {
                    Class::Known(v.clone())
                } else {
                    Class::Own(v.clone())
                }
            }
        },
        Outcome::Crash(sig) => {
            let v = Violation {
                property: def.id.to_string(),
                oracle: "crash".into(),
                signature: format!("crash:{}", sig.split(':').next().unwrap_or(sig)),
                detail: format!("child terminated abnormally: {}", sig),
            };
            if is_open_known(known, &v) {
                Class::Known(v)
            } else {
                Class::Own(v)
            }
        }
        Outcome::Timeout => Class::Inconclusive("timeout".into()),
        Outcome::Internal(s) => Class::Inconclusive(format!("internal: {}", s)),
    }
}

pub fn run_shard(
    def: &CheckDef,
    tier: Tier,
    seed: u64,
    shard: usize,
    nshards: usize,
    known: &[KnownFinding],
) -> ShardOut {
    let mut out = ShardOut::default();
    let max_shrink: u32 = tier.pick(400, 1500);
    let my_variant = std::env::var("VCHECK_VARIANT").unwrap_or_default();
    'fam: for (fi, fam) in def.families.iter().enumerate() {
        if fam.variant != my_variant {
            continue;
        }
        // development aid: restrict a run to the families whose name contains the given text
        if let Ok(f) = std::env::var("VCHECK_FAMILY") {
            if !fam.name.contains(&f) {
                continue;
            }
        }
        if let Some(en) = fam.enumerate {
            let mut i = shard as u64;
            let mut done = 0u64;
            loop {
                let Some(case) = en(tier, i) else { break };
                i += nshards as u64;
                done += 1;
                let oc = exec_case(def, tier, &case);
                if let Outcome::Done(rep) = &oc {
                    out.absorb_report(fam.name, &case, rep);
                } else {
                    out.evaluations += 1;
                    *out.family_cases.entry(fam.name.to_string()).or_insert(0) += 1;
                }
                match classify(def, known, &oc) {
                    Class::Pass => {}
                    Class::Known(v) => *out.known_hits.entry(v.signature).or_insert(0) += 1,
                    Class::Foreign(v) => *out.foreign_hits.entry(format!("{}:{}", v.property, v.signature)).or_insert(0) += 1,
                    Class::Inconclusive(s) => {
                        out.inconclusive.push(format!("{} case #{}: {}", fam.name, i, s));
                        if out.inconclusive.len() > 4 {
                            break;
                        }
                    }
                    Class::Own(v) => {
                        out.failures.push(Failure { family: fam.name.to_string(), case, violation: v, shrink_iters: 0 });
                        break;
                    }
                }
            }
            *out.labels.entry(format!("enumerated:{}", fam.name)).or_insert(0) += done;
            continue;
        }
        let total = (fam.cases)(tier);
        let mine = total / nshards as u64 + if (shard as u64) < total % nshards as u64 { 1 } else { 0 };
        if mine == 0 {
            continue;
        }
        let s = mix(mix(mix(seed, str_hash(def.id)), fi as u64 + 1), shard as u64 + 1);
        let mut seed_bytes = [0u8; 32];
        for i in 0..4 {
            seed_bytes[i * 8..i * 8 + 8].copy_from_slice(&mix(s, i as u64 + 77).to_le_bytes());
        }
        let rng = TestRng::from_seed(RngAlgorithm::ChaCha, &seed_bytes);
        let mut config = Config::default();
        config.failure_persistence = None;
        config.cases = mine as u32;
        let mut runner = TestRunner::new_with_rng(config, rng);
        let strat = (fam.strategy)(tier);
        for _ in 0..mine {
            let mut tree = match strat.new_tree(&mut runner) {
                Ok(t) => t,
                Err(e) => {
                    out.inconclusive.push(format!("generator {}: {}", fam.name, e));
                    continue 'fam;
                }
            };
            let case = tree.current();
            let oc = exec_case(def, tier, &case);
            if let Outcome::Done(rep) = &oc {
                out.absorb_report(fam.name, &case, rep);
            } else {
                out.evaluations += 1;
                *out.family_cases.entry(fam.name.to_string()).or_insert(0) += 1;
            }
            match classify(def, known, &oc) {
                Class::Pass => {}
                Class::Known(v) => {
                    *out.known_hits.entry(v.signature).or_insert(0) += 1;
                }
                Class::Foreign(v) => {
                    *out.foreign_hits
                        .entry(format!("{}:{}", v.property, v.signature))
                        .or_insert(0) += 1;
                }
                Class::Inconclusive(s) => {
                    out.inconclusive
                        .push(format!("{} case {}: {}", fam.name, hash_value(&case), s));
                    if out.inconclusive.len() > 4 {
                        break 'fam;
                    }
                }
                Class::Own(v0) => {
                    // shrink towards a minimal case that still trips the same oracle with an
                    // unknown signature
                    let mut best = (case.clone(), v0.clone());
                    let mut iters = 0u32;
                    if tree.simplify() {
                        loop {
                            if iters >= max_shrink {
                                break;
                            }
                            iters += 1;
                            let c = tree.current();
                            let o = exec_case(def, tier, &c);
                            out.shrink_evals += 1;
                            let same = match classify(def, known, &o) {
                                Class::Own(v) if v.oracle == v0.oracle => Some(v),
                                _ => None,
                            };
                            if let Some(v) = same {
                                best = (c, v);
                                if !tree.simplify() {
                                    break;
                                }
                            } else if !tree.complicate() {
                                break;
                            }
                        }
                    }
                    out.failures.push(Failure {
                        family: fam.name.to_string(),
                        case: best.0,
                        violation: best.1,
                        shrink_iters: iters,
                    });
                    break 'fam;
                }
            }
        }
    }
    out
}

fn corpus_files(id: &str) -> Vec<std::path::PathBuf> {
    let dir = format!("{}/corpus/{}", root(), id);
    let mut v: Vec<_> = match std::fs::read_dir(&dir) {
        Ok(rd) => rd
            .filter_map(|e| e.ok())
            .map(|e| e.path())
            .filter(|p| p.extension().map_or(false, |x| x == "json"))
            .collect(),
        Err(_) => Vec::new(),
    };
    v.sort();
    v
}

/// Full check: corpus replay, sharded generated search, evidence, verdict. Returns the exit code.
pub fn run_check(def: &CheckDef, tier: Tier, seed: u64) -> i32 {
    let t0 = Instant::now();
    let known = load_known();
    let mut total = ShardOut::default();
    let mut corpus_n = 0u64;

    // 1. replay tier
    for p in corpus_files(def.id) {
        let rf: ReplayFile = match std::fs::read_to_string(&p)
            .map_err(|e| e.to_string())
            .and_then(|s| serde_json::from_str(&s).map_err(|e| e.to_string()))
        {
            Ok(r) => r,
            Err(e) => {
                eprintln!("corpus file {:?} unreadable: {}", p, e);
                return 2;
            }
        };
        corpus_n += 1;
        let oc = exec_case(def, tier, &rf.case);
        if let Outcome::Done(rep) = &oc {
            total.absorb_report("corpus", &rf.case, rep);
        } else {
            total.evaluations += 1;
        }
        match classify(def, &known, &oc) {
            Class::Pass => {}
            Class::Known(v) => *total.known_hits.entry(v.signature).or_insert(0) += 1,
            Class::Foreign(v) => {
                *total
                    .foreign_hits
                    .entry(format!("{}:{}", v.property, v.signature))
                    .or_insert(0) += 1
            }
            Class::Inconclusive(s) => total.inconclusive.push(format!("corpus {:?}: {}", p, s)),
            Class::Own(v) => total.failures.push(Failure {
                family: format!("corpus:{}", p.file_name().unwrap().to_string_lossy()),
                case: rf.case.clone(),
                violation: v,
                shrink_iters: 0,
            }),
        }
    }

    // 2. generated search in shard processes
    let nshards = (def.shards)(tier).max(1);
    let exe = std::env::current_exe().unwrap();
    let tmpdir = format!("{}/shards-tmp/{}-{}", std::env::var("VCHECK_TMP").unwrap_or_else(|_| "/verif/harness/target".to_string()), def.id, std::process::id());
    let _ = std::fs::create_dir_all(&tmpdir);
    let mut children = Vec::new();
    let mut variants: Vec<&'static str> = def.families.iter().map(|f| f.variant).collect();
    variants.sort();
    variants.dedup();
    let mut launch: Vec<(std::path::PathBuf, &'static str, usize)> = Vec::new();
    for v in &variants {
        let vexe = if v.is_empty() {
            exe.clone()
        } else {
            let p = exe.to_string_lossy().replace("/release/vcheck", &format!("/{}/release/vcheck", v));
            std::path::PathBuf::from(p)
        };
        if !vexe.exists() {
            eprintln!("missing harness build for variant {:?}: {:?}", v, vexe);
            return 2;
        }
        for sh in 0..nshards {
            launch.push((vexe.clone(), v, sh));
        }
    }
    for (vexe, variant, sh) in launch {
        let outp = format!("{}/shard{}{}.json", tmpdir, variant, sh);
        let ch = std::process::Command::new(&vexe)
            .env("VCHECK_VARIANT", variant)
            .args([
                "shard",
                def.id,
                tier.name(),
                &seed.to_string(),
                &sh.to_string(),
                &nshards.to_string(),
                &outp,
            ])
            .spawn();
        match ch {
            Ok(c) => children.push((c, outp)),
            Err(e) => {
                eprintln!("cannot spawn shard: {}", e);
                return 2;
            }
        }
    }
    let mut shard_errors = Vec::new();
    for (mut c, outp) in children {
        let st = c.wait();
        match st {
            Ok(s) if s.success() => match std::fs::read_to_string(&outp)
                .map_err(|e| e.to_string())
                .and_then(|s| serde_json::from_str::<ShardOut>(&s).map_err(|e| e.to_string()))
            {
                Ok(so) => total.merge(so),
                Err(e) => shard_errors.push(format!("{}: {}", outp, e)),
            },
            Ok(s) => shard_errors.push(format!("shard exited with {:?}", s)),
            Err(e) => shard_errors.push(format!("wait: {}", e)),
        }
    }
    let _ = std::fs::remove_dir_all(&tmpdir);

    // 3. verdict
    let mut seen_sig = BTreeSet::new();
    let mut violations = Vec::new();
    let _ = std::fs::create_dir_all(format!("{}/replays", root()));
    for f in &total.failures {
        if !seen_sig.insert(f.violation.signature.clone()) {
            continue;
        }
        let h = hash_value(&f.case);
        let path = format!("{}/replays/{}-{:016x}.json", root(), def.id, h);
        let rf = ReplayFile {
            property: def.id.to_string(),
            family: f.family.clone(),
            case: f.case.clone(),
            violation: Some(f.violation.clone()),
            note: format!("shrunk in {} iterations", f.shrink_iters),
        };
        let _ = std::fs::write(&path, serde_json::to_string_pretty(&rf).unwrap());
        violations.push((path, f.violation.clone()));
    }
    for (sig, n) in &total.known_hits {
        let desc = known
            .iter()
            .find(|k| &k.signature == sig && k.property == def.id)
            .map(|k| k.description.clone())
            .unwrap_or_default();
        println!(
            "KNOWN-FINDING: property={} {} ({} cases): {}",
            def.id, sig, n, desc
        );
    }
    let distinct: BTreeSet<u64> = total.nontrivial_hashes.iter().cloned().collect();
    let wall = t0.elapsed().as_secs_f64();
    let evidence = serde_json::json!({
        "property_id": def.id,
        "tier": tier.name(),
        "seed": seed,
        "level": "exploration",
        "coverage": {
            "evaluations": total.evaluations,
            "distinct_nontrivial": distinct.len(),
            "rule": def.rule,
            "samples": total.samples,
            "corpus_cases": corpus_n,
            "family_cases": total.family_cases,
            "family_nontrivial": total.family_nontrivial,
            "counters": total.counters,
            "labels": total.labels,
            "known_finding_hits": total.known_hits,
            "foreign_oracle_hits": total.foreign_hits,
            "inconclusive": total.inconclusive,
            "shrink_evaluations": total.shrink_evals,
            "shards": nshards,
            "enumerated_families": def.families.iter().filter(|f| f.enumerate.is_some()).map(|f| serde_json::json!({
                "family": f.name,
                "space": (f.cases)(Tier::Thorough),
                "explored": total.family_cases.get(f.name).cloned().unwrap_or(0),
                "complete": tier == Tier::Thorough && total.family_cases.get(f.name).cloned().unwrap_or(0) == (f.cases)(Tier::Thorough),
            })).collect::<Vec<_>>(),
            "exhaustive": false,
        },
        "assumptions": def.assumptions,
        "wall_s": wall,
        "violations": violations.len(),
    });
    let _ = std::fs::create_dir_all(format!("{}/evidence", root()));
    let evp = format!("{}/evidence/{}.json", root(), def.id);
    if let Err(e) = std::fs::write(&evp, serde_json::to_string_pretty(&evidence).unwrap()) {
        eprintln!("cannot write {}: {}", evp, e);
        return 2;
    }
    println!(
        "{} {}: {} cases ({} distinct non-trivial), {} known-finding hits, {} foreign-oracle hits, {} inconclusive, {:.1}s",
        def.id,
        tier.name(),
        total.evaluations,
        distinct.len(),
        total.known_hits.values().sum::<u64>(),
        total.foreign_hits.values().sum::<u64>(),
        total.inconclusive.len(),
        wall
    );
    if !violations.is_empty() {
        for (path, v) in &violations {
            println!("VIOLATION property={} replay={}", def.id, path);
            println!("  oracle={} signature={}", v.oracle, v.signature);
            println!("  detail={}", v.detail);
        }
        return 1;
    }
    if !shard_errors.is_empty() {
        for e in &shard_errors {
            eprintln!("shard error: {}", e);
        }
        return 2;
    }
    if !total.inconclusive.is_empty() {
        for e in total.inconclusive.iter().take(10) {
            eprintln!("inconclusive: {}", e);
        }
        return 2;
    }
    0
}

/// Replays one file once in a fresh child, bypassing proptest. Exit code as for a check.
pub fn replay(defs: &[CheckDef], path: &str) -> i32 {
    let rf: ReplayFile = match std::fs::read_to_string(path)
        .map_err(|e| e.to_string())
        .and_then(|s| serde_json::from_str(&s).map_err(|e| e.to_string()))
    {
        Ok(r) => r,
        Err(e) => {
            eprintln!("cannot read replay file {}: {}", path, e);
            return 2;
        }
    };
    let def = match defs.iter().find(|d| d.id == rf.property) {
        Some(d) => d,
        None => {
            eprintln!("unknown property {}", rf.property);
            return 2;
        }
    };
    let known = load_known();
    let oc = exec_case(def, Tier::Thorough, &rf.case);
    match classify(def, &known, &oc) {
        Class::Pass => {
            println!("replay {}: property {} held", path, def.id);
            if let Outcome::Done(rep) = &oc {
                println!("  nontrivial={} labels={:?}", rep.nontrivial, rep.labels);
                if std::env::var_os("VCHECK_COUNTERS").is_some() {
                    println!("  counters={:?}", rep.counters);
                }
            }
            0
        }
        Class::Known(v) => {
            println!("KNOWN-FINDING: property={} {}", def.id, v.signature);
            0
        }
        Class::Foreign(v) => {
            println!(
                "replay {}: property {} not violated; foreign oracle tripped: {} {} {}",
                path, def.id, v.property, v.signature, v.detail
            );
            0
        }
        Class::Inconclusive(s) => {
            eprintln!("replay {}: inconclusive: {}", path, s);
            2
        }
        Class::Own(v) => {
            println!("VIOLATION property={} replay={}", def.id, path);
            println!("  oracle={} signature={}", v.oracle, v.signature);
            println!("  detail={}", v.detail);
            1
        }
    }
}
