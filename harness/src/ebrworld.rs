//! EbrWorld: generated pin / nested pin / unpin / reactivate / defer / flush / collect / thread-exit
//! programs on the default collector under the cooperative scheduler (C13-C16), plus sequential
//! programs on private collectors.

use std::collections::BTreeSet;
use std::sync::Mutex;

use circ::verif::{Collector, LocalHandle};
use circ::{cs, Guard};
use proptest::prelude::*;
use proptest::strategy::BoxedStrategy;
use serde::{Deserialize, Serialize};
use serde_json::Value;

use crate::runner::{violation, Report};
use crate::sched::{self, Directive, Until};
use circ::verif::site;

#[derive(Serialize, Deserialize, Clone, Copy, Debug, PartialEq, Eq)]
pub enum EK {
    Nop,
    Round,
    Pin,
    DropGuard,
    Defer,
    Flush,
    Burst,
    Reactivate,
    ReactivateAfter,
    ReactivatePanic,
    DeferNested,
    /// defer a function that enters a critical section and keeps the guard beyond its own return
    DeferKeepGuard,
    /// register `a + b` further participants on the default collector (handles kept by the thread)
    RegExtra,
    /// drop the `a + b` most recently registered of them (their entries become logically deleted)
    UnregExtra,
    /// build a chain of 100 + 2a reference-counted nodes and drop its head: a deferred destruction
    /// whose disposal pass is long enough to re-pin the collecting thread
    DropChain,
}

#[derive(Serialize, Deserialize, Clone, Copy, Debug, PartialEq, Eq)]
pub struct EOp {
    pub k: EK,
    pub a: u8,
    pub b: u8,
}

#[derive(Serialize, Deserialize, Clone, Debug)]
pub struct EbrCase {
    pub align: u8,
    pub threads: Vec<Vec<EOp>>,
    pub sched: Vec<Directive>,
    /// run the (single) op list on a private collector with three handles instead
    #[serde(default)]
    pub private: bool,
    /// the last worker does not exit: once all the others are gone it is the surviving thread
    /// whose collection rounds must run everything that is pending (otherwise the main thread,
    /// which took no part in the scheduled phase, does that)
    #[serde(default)]
    pub survivor: bool,
}

struct Clo {
    by: usize,
    active_at_defer: Vec<u64>,
    runs: u32,
    peer_cs_active_at_defer: bool,
}

struct EState {
    clos: Vec<Clo>,
    active: BTreeSet<u64>,
    exited: Vec<bool>,
    published: Vec<Option<usize>>,
    checked: Vec<bool>,
    ending: Vec<bool>,
    last_global: usize,
    next_inst: u64,
    // counters
    executed: u64,
    executed_foreign_after_exit: u64,
    executed_with_peer_cs_at_defer: u64,
    advances_seen: u64,
    advances_while_checked: u64,
    samples: u64,
    repins_while_checked: u64,
    max_nest: u64,
    reactivations: u64,
    reactivations_sole: u64,
    nested_closure_runs: u64,
    kept_guards: u64,
    chains_dropped: u64,
    extra_registered: u64,
    extra_unregistered: u64,
    unlinked_by: Vec<u64>,
    panics_caught: u64,
    inline_runs: u64,
    boxed_runs: u64,
    exits_while_peer_pinned: u64,
    trace: Vec<String>,
}

static ES: Mutex<Option<EState>> = Mutex::new(None);
/// Which property a "pinned participant lags by more than one epoch" observation is reported
/// under: C14 normally; C18 when the registry-churn family of C18 runs this world (an advancement
/// that left a registered pinned participant behind has overlooked it).
static LAG_PROP: Mutex<&'static str> = Mutex::new("C14");
/// When another property's check runs this world, an observation of C16's model oracle (which
/// does not corrupt anything: the announced epoch or pin state merely differs from the model)
/// is counted and the case goes on, so that the consequence for the property being checked
/// (e.g. a deferred function running inside a critical section, C13) can still be observed.
static C16_SOFT: std::sync::atomic::AtomicBool = std::sync::atomic::AtomicBool::new(false);
static C16_SOFT_HITS: std::sync::atomic::AtomicU64 = std::sync::atomic::AtomicU64::new(0);

fn c16_violation(signature: &str, detail: &str) {
    if C16_SOFT.load(std::sync::atomic::Ordering::SeqCst) {
        C16_SOFT_HITS.fetch_add(1, std::sync::atomic::Ordering::SeqCst);
        return;
    }
    violation("C16", "O-pinned", signature, detail)
}

fn with<R>(f: impl FnOnce(&mut EState) -> R) -> R {
    let mut g = match ES.lock() {
        Ok(g) => g,
        Err(p) => p.into_inner(),
    };
    f(g.as_mut().expect("ebr state"))
}

fn log(s: String) {
    with(|e| {
        if e.trace.len() > 300 {
            e.trace.remove(0);
        }
        e.trace.push(s)
    })
}
fn tail(e: &EState) -> String {
    let k = e.trace.len().saturating_sub(40);
    e.trace[k..].join(" | ")
}
fn tname() -> String {
    let t = sched::tid();
    if t == sched::NOT_WORKER {
        "M".into()
    } else {
        format!("t{}", t)
    }
}

// ---- closures of generated size and alignment ----

macro_rules! payload {
    ($name:ident, $n:expr, $align:expr) => {
        #[repr(C, align($align))]
        struct $name {
            id: u32,
            data: [u8; $n],
        }
        impl $name {
            fn new(id: u32) -> Self {
                let mut data = [0u8; $n];
                for (i, d) in data.iter_mut().enumerate() {
                    *d = (id as usize * 31 + i * 7 + 3) as u8;
                }
                Self { id, data }
            }
            fn check(&self) -> bool {
                (self as *const Self as usize) % $align == 0
                    && self
                        .data
                        .iter()
                        .enumerate()
                        .all(|(i, d)| *d == (self.id as usize * 31 + i * 7 + 3) as u8)
            }
        }
    };
}
payload!(P4, 0, 4); // 4 bytes
payload!(P8, 4, 8); // 8 bytes
payload!(P16, 12, 8); // 16
payload!(P24, 20, 8); // 24: largest inline
payload!(P32, 28, 8); // 32: boxed
payload!(P24A16, 20, 16); // 32 bytes, align 16: boxed because of alignment
payload!(P64A64, 20, 64); // 64, align 64
payload!(P200, 196, 4); // 200
payload!(P136A8, 132, 8);
payload!(P8A16, 4, 16); // 16 bytes: small enough for inline storage, but over-aligned for it
payload!(P128A128, 20, 128);
payload!(P4096A4096, 20, 4096); // page-aligned
payload!(P5000, 4996, 8); // larger than a bag's whole buffer

// closures without any captured state (zero-sized): their identity comes from a const parameter
static ZST_IDS: [std::sync::atomic::AtomicU32; 8] = [const { std::sync::atomic::AtomicU32::new(u32::MAX) }; 8];
fn zst_run<const K: usize>() {
    let id = ZST_IDS[K].load(std::sync::atomic::Ordering::SeqCst);
    on_run(id, true, true);
}

fn on_run(id: u32, intact: bool, inline: bool) {
    let me = sched::tid();
    with(|e| {
        let i = id as usize;
        if i >= e.clos.len() {
            violation("C15", "O-exactly-once", "O-exactly-once/unknown-closure", &format!("a deferred function with corrupted identity ({}) was executed; trace: {}", id, tail(e)));
        }
        e.trace.push(format!("{}:run(c{})", tname(), id));
        e.clos[i].runs += 1;
        if e.clos[i].runs > 1 {
            violation("C15", "O-exactly-once", "O-exactly-once/twice", &format!("deferred function c{} executed twice; trace: {}", id, tail(e)));
        }
        if !intact {
            violation("C15", "O-exactly-once", "O-exactly-once/data-corrupt", &format!("captured data of deferred function c{} not intact or misaligned at execution; trace: {}", id, tail(e)));
        }
        let still: Vec<u64> = e.clos[i].active_at_defer.iter().cloned().filter(|x| e.active.contains(x)).collect();
        if !still.is_empty() {
            let sites = sched::stall_sites();
            let names: Vec<&str> = sites.iter().map(|s| sched::site_name(*s)).collect();
            violation(
                "C13",
                "O-grace",
                &format!("O-grace/ran-inside-cs/stall={{{}}}", names.join(",")),
                &format!("deferred function c{} (deferred by t{}) was executed by {} while critical sections {:?}, already active when it was deferred, are still active; global epoch {}; trace: {}", id, e.clos[i].by, tname(), still, circ::verif::global_epoch(), tail(e)),
            );
        }
        e.executed += 1;
        if inline {
            e.inline_runs += 1;
        } else {
            e.boxed_runs += 1;
        }
        if e.clos[i].peer_cs_active_at_defer {
            e.executed_with_peer_cs_at_defer += 1;
        }
        let by = e.clos[i].by;
        if by != me && by < e.exited.len() && e.exited[by] {
            e.executed_foreign_after_exit += 1;
        }
    })
}

/// Registers a closure id; `S` = critical sections active right now.
fn new_clo(by: usize) -> u32 {
    with(|e| {
        let id = e.clos.len() as u32;
        let active: Vec<u64> = e.active.iter().cloned().collect();
        let peer = active.iter().any(|inst| (inst >> 32) as usize != by);
        e.clos.push(Clo {
            by,
            active_at_defer: active,
            runs: 0,
            peer_cs_active_at_defer: peer,
        });
        e.trace.push(format!("t{}:defer(c{})", by, id));
        id
    })
}

fn defer_sized(guard: &Guard, by: usize, class: u8) {
    let id = new_clo(by);
    macro_rules! go {
        ($t:ident, $inline:expr) => {{
            let p = $t::new(id);
            unsafe { circ::verif::defer(guard, move || on_run(p.id, p.check(), $inline)) }
        }};
    }
    if class >= 224 {
        // the rarer shapes
        match class % 6 {
            0 => return go!(P8A16, false),
            1 => return go!(P128A128, false),
            2 => return go!(P4096A4096, false),
            3 => return go!(P5000, false),
            _ => {
                // a zero-sized closure, if one of the eight identities is still unused in this case
                macro_rules! z {
                    ($k:expr) => {
                        if ZST_IDS[$k].compare_exchange(u32::MAX, id, std::sync::atomic::Ordering::SeqCst, std::sync::atomic::Ordering::SeqCst).is_ok() {
                            let f = zst_run::<$k>;
                            debug_assert_eq!(std::mem::size_of_val(&f), 0);
                            return unsafe { circ::verif::defer(guard, f) };
                        }
                    };
                }
                z!(0);
                z!(1);
                z!(2);
                z!(3);
                z!(4);
                z!(5);
                z!(6);
                z!(7);
            }
        }
    }
    match class % 9 {
        0 => go!(P4, true),
        1 => go!(P8, true),
        2 => go!(P16, true),
        3 => go!(P24, true),
        4 => go!(P32, false),
        5 => go!(P24A16, false),
        6 => go!(P64A64, false),
        7 => go!(P200, false),
        _ => go!(P136A8, false),
    }
}

// ---- the epoch-clock oracle, sampled at every yield point ----

thread_local! {
    // set once the thread's participant exists (asking for its state earlier would register it
    // re-entrantly from inside its own registration)
    static REGISTERED: std::cell::Cell<bool> = const { std::cell::Cell::new(false) };
}

fn sample(me: usize, _site: u32) {
    let g = circ::verif::default_collector().verif_epoch();
    if std::env::var_os("VCHECK_TRACE").is_some() {
        eprintln!("step t{} {} global={} freed-records={} local={:?}", me, sched::site_name(_site), g >> 1, crate::POISONED_RECORDS.load(std::sync::atomic::Ordering::Relaxed), if REGISTERED.with(|r| r.get()) { circ::verif::local_state() } else { None });
    }
    let mine = if REGISTERED.with(|r| r.get()) { circ::verif::local_state().map(|s| s.0) } else { None };
    with(|e| {
        e.samples += 1;
        if g < e.last_global {
            violation("C14", "O-clock", "O-clock/decreased", &format!("the global epoch went from {} to {}; trace: {}", e.last_global >> 1, g >> 1, tail(e)));
        }
        if g - e.last_global > 2 {
            violation("C14", "O-clock", "O-clock/skipped", &format!("the global epoch jumped from {} to {} within one atomic step; trace: {}", e.last_global >> 1, g >> 1, tail(e)));
        }
        if g != e.last_global {
            e.advances_seen += 1;
            if e.checked.iter().any(|c| *c) {
                e.advances_while_checked += 1;
            }
            e.last_global = g;
        }
        if me < e.published.len() {
            if e.checked[me] && e.published[me].is_some() && mine.is_some() && e.published[me] != mine && mine.unwrap() & 1 == 1 {
                e.repins_while_checked += 1;
            }
            e.published[me] = mine;
        }
        for t in 0..e.published.len() {
            if !e.checked[t] {
                continue;
            }
            let Some(a) = e.published[t] else { continue };
            if a & 1 == 1 {
                let gap = (g >> 1).wrapping_sub(a >> 1);
                if gap > 1 {
                    let sites = sched::stall_sites();
                    let names: Vec<&str> = sites.iter().map(|s| sched::site_name(*s)).collect();
                    let lag_prop = *LAG_PROP.lock().unwrap();
                    violation(
                        lag_prop,
                        "O-clock",
                        &format!("O-clock/pinned-lags/stall={{{}}}", names.join(",")),
                        &format!("thread t{} is pinned at epoch {} while the global epoch is {}; trace: {}", t, a >> 1, g >> 1, tail(e)),
                    );
                }
            } else if e.ending[t] {
                e.checked[t] = false;
                e.ending[t] = false;
            } else {
                c16_violation("O-pinned/unpinned-while-guard-live", &format!("thread t{} shows as unpinned although it holds a live guard; trace: {}", t, tail(e)));
            }
        }
    })
}

/// At an op boundary: the thread may be parked here, so what the others see of it must be current
/// (inside an op it parks only at yield points, where the last published value is exact).
fn refresh(tid: usize) {
    let mine = circ::verif::local_state().map(|s| s.0);
    with(|e| {
        e.published[tid] = mine;
        if e.checked[tid] && e.ending[tid] && mine.map_or(true, |m| m & 1 == 0) {
            e.checked[tid] = false;
            e.ending[tid] = false;
        }
    })
}

thread_local! {
    /// guards created by a deferred function on this thread and kept beyond its return, with the
    /// participant's announced epoch at their creation
    static STASH: std::cell::RefCell<Vec<(Guard, Option<usize>)>> = const { std::cell::RefCell::new(Vec::new()) };
}

fn stash_len() -> usize {
    STASH.with(|s| s.borrow().len())
}

fn take_stash() -> Vec<(Guard, Option<usize>)> {
    STASH.with(|s| std::mem::take(&mut *s.borrow_mut()))
}

fn check_kept(v: &[(Guard, Option<usize>)]) {
    let now = circ::verif::local_state().map(|s| s.0);
    for (_, at) in v {
        if *at != now {
            let d = with(|e| {
                format!(
                    "a guard created inside a deferred function and kept beyond its return is live, yet the announced epoch of {} moved from {:?} to {:?} (raw: epoch<<1|pinned); global epoch {}; trace: {}",
                    tname(), at, now, circ::verif::global_epoch(), tail(e)
                )
            });
            c16_violation("O-pinned/epoch-moved-under-guard-kept-from-deferred-function", &d);
        }
    }
}

/// the main thread (not a worker) executed deferred functions that kept guards: check and drop them
fn main_drain_stash() {
    loop {
        let v = take_stash();
        if v.is_empty() {
            break;
        }
        if let Some((raw, gc, _)) = circ::verif::local_state() {
            if raw & 1 != 1 || gc != v.len() {
                let d = with(|e| format!("main holds {} guards kept by deferred functions but shows pinned={} guard_count={}; trace: {}", v.len(), raw & 1, gc, tail(e)));
                c16_violation("O-pinned/model-mismatch/main-kept", &d);
            }
        }
        check_kept(&v);
        drop(v);
    }
}

// ---- interpreter ----

pub struct ENode {
    next: circ::AtomicRc<ENode>,
}
unsafe impl circ::RcObject for ENode {
    fn pop_edges(&mut self, out: &mut Vec<circ::Rc<Self>>) {
        out.push(self.next.take());
    }
}

struct Eth {
    tid: usize,
    guards: Vec<Guard>,
    inst: Option<u64>,
    extra: Vec<circ::verif::LocalHandle>,
}

impl Eth {
    fn begin_cs(&mut self) {
        // outermost pin() has returned
        let tid = self.tid;
        let mine = circ::verif::local_state().map(|s| s.0);
        let inst = with(|e| {
            e.next_inst += 1;
            let inst = ((tid as u64) << 32) | e.next_inst;
            e.active.insert(inst);
            e.checked[tid] = true;
            e.ending[tid] = false;
            e.published[tid] = mine;
            inst
        });
        self.inst = Some(inst);
    }
    fn end_cs(&mut self) {
        // the drop / reactivate of the last guard is being invoked
        let tid = self.tid;
        if let Some(inst) = self.inst.take() {
            with(|e| {
                e.active.remove(&inst);
                e.ending[tid] = true;
            });
        }
    }
    /// guards that deferred functions executed by this thread during the op have kept
    fn adopt(&mut self) {
        let v = take_stash();
        if v.is_empty() {
            return;
        }
        check_kept(&v);
        for (g, _) in v {
            self.guards.push(g);
        }
        if self.inst.is_none() {
            self.begin_cs();
        }
    }
    fn check_model(&self, what: &str) {
        let Some((raw, gc, _)) = circ::verif::local_state() else { return };
        let pinned = raw & 1 == 1;
        if pinned != !self.guards.is_empty() || gc != self.guards.len() {
            let d = with(|e| {
                format!(
                    "after {}: thread t{} holds {} live guards but the participant shows pinned={} guard_count={}; trace: {}",
                    what, self.tid, self.guards.len(), pinned, gc, tail(e)
                )
            });
            c16_violation(&format!("O-pinned/model-mismatch/{}", what), &d);
        }
    }

    fn exec(&mut self, op: EOp) {
        sched::op_begin();
        let others0 = sched::steps_by_others(self.tid);
        let before = circ::verif::local_state().map(|s| s.0);
        let mut what = "nop";
        match op.k {
            EK::Nop => {}
            EK::Pin => {
                if self.guards.len() < 8 {
                    what = "pin";
                    log(format!("t{}:pin", self.tid));
                    let g = cs();
                    self.guards.push(g);
                    if self.guards.len() == 1 {
                        self.begin_cs();
                    } else {
                        // nested: the announced epoch must not move
                        let after = circ::verif::local_state().map(|s| s.0);
                        if before != after {
                            c16_violation("O-pinned/nested-pin-moved-epoch", "a nested pin changed the announced epoch");
                        }
                    }
                    with(|e| e.max_nest = e.max_nest.max(self.guards.len() as u64));
                }
            }
            EK::DropGuard => {
                if !self.guards.is_empty() {
                    what = "drop-guard";
                    let i = (op.a as usize * self.guards.len()) >> 8;
                    log(format!("t{}:drop_guard({}/{})", self.tid, i, self.guards.len()));
                    if self.guards.len() == 1 {
                        self.end_cs();
                    }
                    let g = self.guards.remove(i);
                    drop(g);
                }
            }
            EK::Round => {
                what = "round";
                log(format!("t{}:round", self.tid));
                let sole = self.guards.is_empty();
                let g = cs();
                self.guards.push(g);
                if sole {
                    self.begin_cs();
                }
                self.guards.last().unwrap().flush();
                if sole {
                    self.end_cs();
                }
                let g = self.guards.pop().unwrap();
                drop(g);
            }
            EK::Flush => {
                if let Some(g) = self.guards.last() {
                    what = "flush";
                    log(format!("t{}:flush", self.tid));
                    g.flush();
                }
            }
            EK::Defer => {
                if !self.guards.is_empty() {
                    what = "defer";
                    let i = (op.a as usize * self.guards.len()) >> 8;
                    defer_sized(&self.guards[i], self.tid, op.b);
                }
            }
            EK::Burst => {
                if !self.guards.is_empty() {
                    what = "burst";
                    let k = 20 + (op.a as usize % 4) * 25; // 20, 45, 70, 95: crosses the bag size of 64
                    for j in 0..k {
                        defer_sized(&self.guards[0], self.tid, op.b.wrapping_add(j as u8));
                    }
                }
            }
            EK::DeferNested => {
                if !self.guards.is_empty() {
                    what = "defer-nested";
                    let by = self.tid;
                    let id = new_clo(by);
                    let mode = op.a % 6;
                    let class = op.b;
                    unsafe {
                        circ::verif::defer(&self.guards[0], move || {
                            on_run(id, true, true);
                            // API use from inside a deferred function, i.e. during collection
                            let st0 = circ::verif::local_state();
                            let mut g = cs();
                            let pinned_at = circ::verif::local_state().map(|s| s.0);
                            match mode {
                                0 => {}
                                1 => g.flush(),
                                2 => defer_sized(&g, by, class),
                                3 => g.reactivate(),
                                _ => {
                                    // a long critical section inside a destructor: many deferrals
                                    // (bag boundaries) under one guard
                                    let k = if mode == 4 { 70 } else { 200 };
                                    for j in 0..k {
                                        defer_sized(&g, by, class.wrapping_add(j as u8));
                                    }
                                }
                            }
                            // the guard `g` is still live: the thread must still be inside the very
                            // critical section it entered with it (same announced epoch), unless it
                            // explicitly reactivated
                            let now = circ::verif::local_state().map(|s| s.0);
                            if mode != 3 && now != pinned_at {
                                let me = sched::tid();
                                let d = with(|e| {
                                    format!(
                                        "a guard created inside a deferred function (during collection, by {}) was live, yet the participant's announced epoch moved from {:?} to {:?} (raw: epoch<<1|pinned) while the thread performed {} deferrals under it; global epoch {}; trace: {}",
                                        if me == sched::NOT_WORKER { "main".to_string() } else { format!("t{}", me) },
                                        pinned_at, now, if mode == 4 { 70 } else if mode == 5 { 200 } else { 1 },
                                        circ::verif::global_epoch(), tail(e)
                                    )
                                });
                                c16_violation("O-pinned/epoch-moved-under-live-guard-in-collection", &d);
                            }
                            drop(g);
                            let st1 = circ::verif::local_state();
                            if let (Some(a), Some(b)) = (st0, st1) {
                                if a.1 != b.1 || (a.0 & 1) != (b.0 & 1) {
                                    c16_violation("O-pinned/nested-in-collection", &format!("pin state changed across a guard created and dropped inside a deferred function: {:?} -> {:?}", a, b));
                                }
                            }
                            with(|e| e.nested_closure_runs += 1);
                        })
                    }
                }
            }
            EK::DropChain => {
                what = "drop-chain";
                let n = 100 + 2 * op.a as usize;
                log(format!("t{}:drop_chain({})", self.tid, n));
                let mut head = circ::Rc::new(ENode { next: circ::AtomicRc::null() });
                for _ in 1..n {
                    head = circ::Rc::new(ENode { next: circ::AtomicRc::from(head) });
                }
                drop(head);
                with(|e| e.chains_dropped += 1);
            }
            EK::RegExtra => {
                what = "reg-extra";
                let n = op.a as usize + op.b as usize;
                log(format!("t{}:reg_extra({})", self.tid, n));
                for _ in 0..n {
                    self.extra.push(circ::verif::default_collector().register());
                }
                with(|e| e.extra_registered += n as u64);
            }
            EK::UnregExtra => {
                what = "unreg-extra";
                let n = (op.a as usize + op.b as usize).min(self.extra.len());
                log(format!("t{}:unreg_extra({})", self.tid, n));
                for _ in 0..n {
                    drop(self.extra.pop());
                }
                with(|e| e.extra_unregistered += n as u64);
            }
            EK::DeferKeepGuard => {
                if !self.guards.is_empty() {
                    what = "defer-keep-guard";
                    let by = self.tid;
                    let id = new_clo(by);
                    unsafe {
                        circ::verif::defer(&self.guards[0], move || {
                            on_run(id, true, true);
                            let g = cs();
                            let at = circ::verif::local_state().map(|s| s.0);
                            STASH.with(|s| s.borrow_mut().push((g, at)));
                            with(|e| e.kept_guards += 1);
                        })
                    }
                }
            }
            EK::Reactivate => {
                if !self.guards.is_empty() {
                    what = "reactivate";
                    let i = (op.a as usize * self.guards.len()) >> 8;
                    let sole = self.guards.len() == 1;
                    log(format!("t{}:reactivate({}/{})", self.tid, i, self.guards.len()));
                    if sole {
                        self.end_cs();
                    }
                    self.guards[i].reactivate();
                    if sole {
                        self.begin_cs();
                    }
                    self.after_reactivate(sole, before, others0, "reactivate");
                }
            }
            EK::ReactivateAfter | EK::ReactivatePanic => {
                if !self.guards.is_empty() {
                    what = "reactivate_after";
                    let i = (op.a as usize * self.guards.len()) >> 8;
                    let sole = self.guards.len() == 1;
                    let k = op.b % 3;
                    let panic = op.k == EK::ReactivatePanic;
                    log(format!("t{}:reactivate_after({}/{},{},{})", self.tid, i, self.guards.len(), k, panic));
                    if sole {
                        self.end_cs();
                    }
                    let tid = self.tid;
                    let nguards = self.guards.len();
                    let g = &mut self.guards[i];
                    let res = std::panic::catch_unwind(std::panic::AssertUnwindSafe(|| {
                        g.reactivate_after(|| {
                            // inside: unpinned iff it was the sole guard
                            if let Some((raw, gc, _)) = circ::verif::local_state() {
                                let pinned = raw & 1 == 1;
                                // (deferred functions run by the unpin may have kept guards)
                                let kept = stash_len();
                                if pinned != (!sole || kept > 0) || gc != nguards - 1 + kept {
                                    c16_violation("O-pinned/inside-reactivate_after", &format!("inside reactivate_after on {} guard of t{}: pinned={} guard_count={}", if sole { "the sole" } else { "a non-sole" }, tid, pinned, gc));
                                }
                            }
                            for _ in 0..k {
                                let g2 = cs();
                                g2.flush();
                            }
                            if panic {
                                std::panic::resume_unwind(Box::new("generated panic"));
                            }
                            7u8
                        })
                    }));
                    if panic {
                        if res.is_ok() {
                            c16_violation("O-pinned/panic-swallowed", "reactivate_after swallowed the closure's panic");
                        }
                        with(|e| e.panics_caught += 1);
                    } else if res.ok() != Some(7) {
                        c16_violation("O-pinned/result", "reactivate_after did not return the closure's result");
                    }
                    if sole {
                        self.begin_cs();
                    }
                    self.after_reactivate(sole, before, others0, "reactivate_after");
                }
            }
        }
        self.adopt();
        self.check_model(what);
        refresh(self.tid);
        sched::op_done();
    }

    fn after_reactivate(&self, sole: bool, before: Option<usize>, others0: u64, what: &str) {
        let after = circ::verif::local_state().map(|s| s.0);
        let undisturbed = sched::steps_by_others(self.tid) == others0;
        with(|e| {
            e.reactivations += 1;
            if sole {
                e.reactivations_sole += 1;
            }
        });
        if !sole {
            if before != after {
                c16_violation(&format!("O-pinned/{}-nonsole-moved", what), &format!("{} on a non-sole guard changed the announced epoch from {:?} to {:?}", what, before, after));
            }
        } else if undisturbed && stash_len() == 0 {
            let g = circ::verif::default_collector().verif_epoch();
            if let Some(a) = after {
                if a & 1 != 1 || a >> 1 != g >> 1 {
                    c16_violation(&format!("O-pinned/{}-sole-not-repinned", what), &format!("{} on the sole guard left the participant at {:#x} while the global epoch is {}", what, a, g >> 1));
                }
            }
        }
    }
}

fn ebr_event(kind: u32, _addr: usize, _aux: usize) {
    if kind == circ::verif::ev::REGISTRY_UNLINK {
        let me = sched::tid();
        if me != sched::NOT_WORKER {
            with(|e| {
                if me < e.unlinked_by.len() {
                    e.unlinked_by[me] += 1;
                }
            });
        }
    }
    if kind == circ::verif::ev::REGISTRY_UNLINK && std::env::var_os("VCHECK_TRACE").is_some() {
        let st = circ::verif::local_state();
        eprintln!("{}: unlink #{} entry {:#x} global {} self {:?}", tname(), with(|e| e.unlinked_by.iter().sum::<u64>()), _addr, circ::verif::global_epoch(), st);
    }
    sched::note_event(kind);
}

fn round_main() {
    let g = cs();
    g.flush();
}

/// The rounds of the surviving thread (whoever calls this): everything pending must have run
/// within the bound.
fn quiesce_rounds() -> u64 {
    // every surviving thread (main) keeps collecting: everything must run within the bound
    let total = with(|e| e.clos.len() as u64);
    let bound = 64 + total;
    let mut rounds = 0u64;
    loop {
        let pending = with(|e| e.clos.iter().filter(|c| c.runs == 0).count());
        if pending == 0 {
            break;
        }
        if rounds >= bound {
            with(|e| {
                let lost: Vec<usize> = e.clos.iter().enumerate().filter(|(_, c)| c.runs == 0).map(|(i, _)| i).collect();
                let by: BTreeSet<usize> = lost.iter().map(|i| e.clos[*i].by).collect();
                violation(
                    "C15",
                    "O-exactly-once",
                    "O-exactly-once/lost",
                    &format!("{} of {} deferred functions (ids {:?}..., deferred by threads {:?}) never ran within {} collection rounds of the surviving thread after all other threads exited; trace: {}", lost.len(), total, &lost[..lost.len().min(8)], by, rounds, tail(e)),
                );
            });
        }
        round_main();
        main_drain_stash();
        rounds += 1;
    }
    rounds
}

pub fn run_case(case: &EbrCase) -> Report {
    let n = case.threads.len().max(1);
    {
        let mut g = ES.lock().unwrap();
        *g = Some(EState {
            clos: Vec::new(),
            active: BTreeSet::new(),
            exited: vec![false; n],
            published: vec![None; n],
            checked: vec![false; n],
            ending: vec![false; n],
            last_global: 0,
            next_inst: 0,
            executed: 0,
            executed_foreign_after_exit: 0,
            executed_with_peer_cs_at_defer: 0,
            advances_seen: 0,
            advances_while_checked: 0,
            samples: 0,
            repins_while_checked: 0,
            max_nest: 0,
            reactivations: 0,
            reactivations_sole: 0,
            nested_closure_runs: 0,
            kept_guards: 0,
            chains_dropped: 0,
            extra_registered: 0,
            extra_unregistered: 0,
            unlinked_by: vec![0; 8],
            panics_caught: 0,
            inline_runs: 0,
            boxed_runs: 0,
            exits_while_peer_pinned: 0,
            trace: Vec::new(),
        });
    }
    for _ in 0..case.align {
        round_main();
    }
    if case.align == 0 {
        drop(cs());
    }
    with(|e| e.last_global = circ::verif::default_collector().verif_epoch());
    // silence the default panic message of generated panics
    std::panic::set_hook(Box::new(|_| {}));
    sched::set_step_hook(Some(sample));
    circ::verif::set_event_hook(Some(ebr_event));
    crate::QUARANTINE.store(true, std::sync::atomic::Ordering::SeqCst);
    sched::init(n, case.sched.clone());
    let mut handles = Vec::new();
    let survivor_idx = if case.survivor && n >= 2 { Some(n - 1) } else { None };
    let (go_tx, go_rx) = std::sync::mpsc::channel::<()>();
    let mut go_rx = Some(go_rx);
    let survivor_result = std::sync::Arc::new(std::sync::atomic::AtomicU64::new(u64::MAX));
    for t in 0..n {
        let ops = case.threads.get(t).cloned().unwrap_or_default();
        let my_rx = if Some(t) == survivor_idx { go_rx.take() } else { None };
        let my_result = survivor_result.clone();
        handles.push(
            std::thread::Builder::new()
                .name(format!("w{}", t))
                .spawn(move || {
                    sched::worker_enter(t);
                    let _ = circ::verif::local_state();
                    REGISTERED.with(|r| r.set(true));
                    let mut th = Eth {
                        tid: t,
                        guards: Vec::new(),
                        inst: None,
                        extra: Vec::new(),
                    };
                    for op in ops {
                        th.exec(op);
                    }
                    // thread exit: remaining guards go away (innermost first), garbage stays in
                    // the local bag for `finalize` to hand over
                    sched::op_begin();
                    th.extra.clear();
                    loop {
                        while let Some(g) = th.guards.pop() {
                            if th.guards.is_empty() && stash_len() == 0 {
                                th.end_cs();
                            }
                            drop(g);
                        }
                        if stash_len() == 0 {
                            break;
                        }
                        th.adopt();
                        th.check_model("exit");
                    }
                    if let Some(rx) = my_rx {
                        // the surviving thread: it leaves the schedule, waits until the others
                        // are gone, and then its rounds alone have to run whatever is pending
                        with(|e| e.trace.push(format!("t{}:survives", t)));
                        refresh(t);
                        sched::op_done();
                        sched::worker_detach();
                        let _ = rx.recv();
                        let r = quiesce_rounds();
                        my_result.store(r, std::sync::atomic::Ordering::SeqCst);
                        return;
                    }
                    with(|e| {
                        e.exited[t] = true;
                        e.trace.push(format!("t{}:exit", t));
                        if e.checked.iter().enumerate().any(|(o, c)| o != t && *c) {
                            e.exits_while_peer_pinned += 1;
                        }
                    });
                    refresh(t);
                    sched::op_done();
                })
                .unwrap(),
        );
    }
    sched::run_all();
    let mut survivor_handle = None;
    for (t, h) in handles.into_iter().enumerate() {
        if Some(t) == survivor_idx {
            survivor_handle = Some(h);
            continue;
        }
        if h.join().is_err() {
            violation("C20", "O-panic", "O-panic/worker", "an EbrWorld worker panicked");
        }
    }
    let summary = sched::finish();
    let mut survivor_rounds = None;
    if let Some(h) = survivor_handle {
        sched::set_step_hook(None);
        let _ = go_tx.send(());
        if h.join().is_err() {
            violation("C20", "O-panic", "O-panic/worker", "the surviving EbrWorld worker panicked");
        }
        survivor_rounds = Some(survivor_result.load(std::sync::atomic::Ordering::SeqCst));
    }
    sched::set_step_hook(None);
    if std::env::var_os("VCHECK_TRACE").is_some() {
        with(|e| eprintln!("TRACE: {}", e.trace.join(" | ")));
    }
    let rounds = match survivor_rounds {
        Some(r) => r + quiesce_rounds(),
        None => quiesce_rounds(),
    };
    let mut rep = Report::default();
    with(|e| {
        rep.count("closures", e.clos.len() as u64);
        rep.count("executed", e.executed);
        rep.count("executed_by_other_after_deferrer_exit", e.executed_foreign_after_exit);
        rep.count("executed_with_peer_cs_active_at_defer", e.executed_with_peer_cs_at_defer);
        rep.count("epoch_advances_seen", e.advances_seen);
        rep.count("epoch_advances_while_some_thread_pinned", e.advances_while_checked);
        rep.count("clock_samples", e.samples);
        rep.count("repins_while_pinned", e.repins_while_checked);
        rep.count("reactivations", e.reactivations);
        rep.count("reactivations_on_sole_guard", e.reactivations_sole);
        rep.count("nested_closure_runs", e.nested_closure_runs);
        rep.count("guards_kept_beyond_deferred_function", e.kept_guards);
        rep.count("chains_dropped", e.chains_dropped);
        rep.count("extra_participants_registered", e.extra_registered);
        rep.count("extra_participants_unregistered", e.extra_unregistered);
        rep.count("max_registry_entries_unlinked_by_one_thread", e.unlinked_by.iter().cloned().max().unwrap_or(0));
        rep.count("panics_caught", e.panics_caught);
        rep.count("inline_closure_runs", e.inline_runs);
        rep.count("boxed_closure_runs", e.boxed_runs);
        rep.count("max_nesting", e.max_nest);
        rep.count("exits_while_peer_pinned", e.exits_while_peer_pinned);
    });
    rep.count("steps", summary.steps);
    rep.count("switches", summary.switches);
    rep.count("mid_op_parks", summary.mid_op_parks);
    rep.count("quiesce_rounds", rounds);
    rep
}

fn get(r: &Report, k: &str) -> u64 {
    r.counters.get(k).cloned().unwrap_or(0)
}

pub fn exec(prop: &str, v: &Value) -> Report {
    let case: EbrCase = serde_json::from_value(v.clone()).expect("bad EbrCase");
    if prop == "C18" {
        *LAG_PROP.lock().unwrap() = "C18";
    }
    if prop != "C16" {
        C16_SOFT.store(true, std::sync::atomic::Ordering::SeqCst);
    }
    let mut rep = if case.private { run_private(&case) } else { run_case(&case) };
    rep.nontrivial = match prop {
        "C13" => get(&rep, "executed_with_peer_cs_active_at_defer") >= 1 || (case.private && get(&rep, "executed") >= 1 && get(&rep, "private_defers_under_peer_guard") >= 1),
        "C14" => get(&rep, "epoch_advances_while_some_thread_pinned") >= 2 && get(&rep, "repins_while_pinned") >= 1,
        "C15" => get(&rep, "executed_by_other_after_deferrer_exit") >= 1 || (case.private && get(&rep, "executed_at_collector_drop") >= 1),
        "C16" => get(&rep, "max_nesting") >= 2 && get(&rep, "reactivations") >= 1,
        "C18" => (get(&rep, "exits_while_peer_pinned") >= 1 && get(&rep, "epoch_advances_while_some_thread_pinned") >= 1) || get(&rep, "max_registry_entries_unlinked_by_one_thread") >= 64,
        _ => get(&rep, "executed") >= 1,
    };
    rep.count("c16_model_observations_tolerated", C16_SOFT_HITS.load(std::sync::atomic::Ordering::SeqCst));
    rep.label(if case.private { "private-collector" } else { "default-collector" });
    if get(&rep, "panics_caught") > 0 {
        rep.label("panic-in-reactivate_after");
    }
    if get(&rep, "guards_kept_beyond_deferred_function") > 0 {
        rep.label("guard-kept-beyond-deferred-function");
    }
    if get(&rep, "max_registry_entries_unlinked_by_one_thread") >= 64 {
        rep.label("one-scan-unlinks->=64-exited-participants");
    }
    if get(&rep, "nested_closure_runs") > 0 {
        rep.label("api-use-inside-deferred-function");
    }
    rep
}

// ---- private collectors (sequential) ----

fn run_private(case: &EbrCase) -> Report {
    {
        let mut g = ES.lock().unwrap();
        *g = Some(EState {
            clos: Vec::new(),
            active: BTreeSet::new(),
            exited: vec![false; 3],
            published: vec![None; 3],
            checked: vec![false; 3],
            ending: vec![false; 3],
            last_global: 0,
            next_inst: 0,
            executed: 0,
            executed_foreign_after_exit: 0,
            executed_with_peer_cs_at_defer: 0,
            advances_seen: 0,
            advances_while_checked: 0,
            samples: 0,
            repins_while_checked: 0,
            max_nest: 0,
            reactivations: 0,
            reactivations_sole: 0,
            nested_closure_runs: 0,
            kept_guards: 0,
            chains_dropped: 0,
            extra_registered: 0,
            extra_unregistered: 0,
            unlinked_by: vec![0; 8],
            panics_caught: 0,
            inline_runs: 0,
            boxed_runs: 0,
            exits_while_peer_pinned: 0,
            trace: Vec::new(),
        });
    }
    let collector = Collector::new();
    let mut handles: Vec<Option<LocalHandle>> = (0..3).map(|_| Some(collector.register())).collect();
    let mut guards: Vec<Vec<Guard>> = (0..3).map(|_| Vec::new()).collect();
    let mut insts: Vec<Option<u64>> = vec![None; 3];
    let mut next = 0u64;
    let mut under_peer = 0u64;
    let ops = case.threads.get(0).cloned().unwrap_or_default();
    let mut last_epoch = collector.verif_epoch();
    for op in ops {
        let h = (op.b as usize >> 4) % 3;
        match op.k {
            EK::Pin => {
                if let Some(hd) = &handles[h] {
                    if guards[h].len() < 8 {
                        guards[h].push(hd.pin());
                        if guards[h].len() == 1 {
                            next += 1;
                            let inst = ((h as u64) << 32) | next;
                            insts[h] = Some(inst);
                            with(|e| {
                                e.active.insert(inst);
                            });
                        }
                        with(|e| e.max_nest = e.max_nest.max(guards[h].len() as u64));
                    }
                }
            }
            EK::DropGuard | EK::Round => {
                if !guards[h].is_empty() {
                    if guards[h].len() == 1 {
                        if let Some(inst) = insts[h].take() {
                            with(|e| {
                                e.active.remove(&inst);
                            });
                        }
                    }
                    let g = guards[h].pop().unwrap();
                    if op.k == EK::Round {
                        g.flush();
                    }
                    drop(g);
                }
            }
            EK::Flush => {
                if let Some(g) = guards[h].last() {
                    g.flush();
                }
            }
            EK::RegExtra | EK::UnregExtra | EK::DropChain => {}
            EK::Defer | EK::Burst | EK::DeferNested | EK::DeferKeepGuard => {
                if let Some(g) = guards[h].last() {
                    let k = if op.k == EK::Burst { 20 + (op.a as usize % 4) * 25 } else { 1 };
                    for j in 0..k {
                        if with(|e| e.active.iter().any(|i| (i >> 32) as usize != h)) {
                            under_peer += 1;
                        }
                        defer_sized(g, h, op.b.wrapping_add(j as u8));
                    }
                }
            }
            EK::Reactivate | EK::ReactivateAfter | EK::ReactivatePanic => {
                if !guards[h].is_empty() {
                    let sole = guards[h].len() == 1;
                    if sole {
                        if let Some(inst) = insts[h].take() {
                            with(|e| {
                                e.active.remove(&inst);
                            });
                        }
                    }
                    let before = handles[h].as_ref().map(|x| x.verif_state().0);
                    match op.k {
                        EK::Reactivate => guards[h][0].reactivate(),
                        EK::ReactivateAfter => {
                            let r = guards[h][0].reactivate_after(|| 5u8);
                            if r != 5 {
                                c16_violation("O-pinned/private-result", "reactivate_after did not return the closure's result");
                            }
                        }
                        _ => {
                            let g = &mut guards[h][0];
                            let res = std::panic::catch_unwind(std::panic::AssertUnwindSafe(|| {
                                g.reactivate_after(|| std::panic::resume_unwind(Box::new("generated panic")))
                            }));
                            if res.is_ok() {
                                c16_violation("O-pinned/private-panic-swallowed", "reactivate_after swallowed the closure's panic");
                            }
                        }
                    }
                    let after = handles[h].as_ref().map(|x| x.verif_state().0);
                    if sole {
                        next += 1;
                        let inst = ((h as u64) << 32) | next;
                        insts[h] = Some(inst);
                        with(|e| {
                            e.active.insert(inst);
                            e.reactivations_sole += 1;
                        });
                        if let Some(a) = after {
                            if a & 1 != 1 || a >> 1 != collector.verif_epoch() >> 1 {
                                c16_violation("O-pinned/private-sole-not-repinned", "reactivate on the sole guard of a private participant did not re-pin at the current epoch");
                            }
                        }
                    } else if before != after {
                        c16_violation("O-pinned/private-nonsole-moved", "reactivate on a non-sole guard of a private participant moved its epoch");
                    }
                    with(|e| e.reactivations += 1);
                }
            }
            EK::Nop => {
                // drop the handle (with guards possibly live and garbage pending)
                if op.a % 4 == 0 {
                    handles[h] = None;
                }
            }
        }
        // model: pinned <=> live guards, for every participant; peers unaffected is implied
        for p in 0..3 {
            if let Some(hd) = &handles[p] {
                let (raw, gc, _) = hd.verif_state();
                if (raw & 1 == 1) != !guards[p].is_empty() || gc != guards[p].len() {
                    c16_violation("O-pinned/private-model-mismatch", &format!("participant {} holds {} guards but shows pinned={} guard_count={}", p, guards[p].len(), raw & 1, gc));
                }
            }
        }
        let g = collector.verif_epoch();
        if g < last_epoch || g - last_epoch > 2 * 3 {
            violation("C14", "O-clock", "O-clock/private", &format!("private collector epoch moved from {} to {} in one op", last_epoch >> 1, g >> 1));
        }
        if g != last_epoch {
            with(|e| e.advances_seen += 1);
        }
        last_epoch = g;
    }
    // release everything: guards, handles, then the collector itself
    for h in 0..3 {
        while let Some(g) = guards[h].pop() {
            if guards[h].is_empty() {
                if let Some(inst) = insts[h].take() {
                    with(|e| {
                        e.active.remove(&inst);
                    });
                }
            }
            drop(g);
        }
    }
    let before_drop = with(|e| e.executed);
    drop(handles);
    drop(collector);
    let (total, executed) = with(|e| (e.clos.len() as u64, e.executed));
    if executed != total {
        with(|e| {
            violation(
                "C15",
                "O-exactly-once",
                "O-exactly-once/lost-at-collector-drop",
                &format!("{} of {} functions deferred on a private collector never ran although every handle and the collector were dropped; trace: {}", total - executed, total, tail(e)),
            )
        });
    }
    let mut rep = Report::default();
    with(|e| {
        rep.count("closures", total);
        rep.count("executed", e.executed);
        rep.count("executed_at_collector_drop", e.executed - before_drop);
        rep.count("private_defers_under_peer_guard", under_peer);
        rep.count("reactivations", e.reactivations);
        rep.count("max_nesting", e.max_nest);
        rep.count("epoch_advances_seen", e.advances_seen);
        rep.count("inline_closure_runs", e.inline_runs);
        rep.count("boxed_closure_runs", e.boxed_runs);
    });
    rep
}

// ---- generators ----

pub type EW = &'static [(u32, EK)];
pub const EW_DEFAULT: EW = &[
    (1, EK::Nop),
    (10, EK::Round),
    (10, EK::Pin),
    (10, EK::DropGuard),
    (12, EK::Defer),
    (4, EK::Flush),
    (2, EK::Burst),
    (4, EK::Reactivate),
    (2, EK::ReactivateAfter),
    (1, EK::ReactivatePanic),
    (3, EK::DeferNested),
];
pub const EW_GUARDS: EW = &[
    (1, EK::Nop),
    (6, EK::Round),
    (14, EK::Pin),
    (12, EK::DropGuard),
    (5, EK::Defer),
    (3, EK::Flush),
    (1, EK::Burst),
    (8, EK::Reactivate),
    (6, EK::ReactivateAfter),
    (3, EK::ReactivatePanic),
    (4, EK::DeferNested),
    (3, EK::DeferKeepGuard),
    (2, EK::DropChain),
];
pub const EW_ADVANCE: EW = &[
    (1, EK::Nop),
    (16, EK::Round),
    (8, EK::Pin),
    (10, EK::DropGuard),
    (6, EK::Defer),
    (4, EK::Flush),
    (1, EK::Burst),
    (8, EK::Reactivate),
    (2, EK::ReactivateAfter),
];
pub const EW_EXIT: EW = &[
    (1, EK::Nop),
    (5, EK::Round),
    (10, EK::Pin),
    (6, EK::DropGuard),
    (16, EK::Defer),
    (3, EK::Flush),
    (5, EK::Burst),
    (2, EK::Reactivate),
    (2, EK::DeferNested),
];

pub const EW_CHURN: EW = &[
    (1, EK::Nop),
    (14, EK::Round),
    (12, EK::Pin),
    (6, EK::DropGuard),
    (4, EK::Defer),
    (2, EK::Flush),
    (3, EK::Reactivate),
];

pub const SITES_EBR: &[u32] = &[
    site::EPOCH_LOAD,
    site::EPOCH_LOADED,
    site::EPOCH_STORE,
    site::EPOCH_CAS,
    site::RAW_LOAD,
    site::RAW_STORE,
    site::RAW_CAS,
    site::RAW_CASW,
    site::RAW_FOR,
];

fn eop(w: EW) -> impl Strategy<Value = EOp> {
    let total: u32 = w.iter().map(|(n, _)| *n).sum();
    (0..total, any::<u8>(), any::<u8>()).prop_map(move |(mut i, a, b)| {
        let mut k = EK::Nop;
        for (n, kk) in w.iter() {
            if i < *n {
                k = *kk;
                break;
            }
            i -= *n;
        }
        EOp { k, a, b }
    })
}

fn edirective(n: u8) -> impl Strategy<Value = Directive> {
    let until = prop_oneof![
        3 => (1u32..5).prop_map(Until::Ops),
        4 => (0u32..30).prop_map(Until::Steps),
        5 => (0..SITES_EBR.len(), 1u32..6).prop_map(|(i, nth)| Until::Site { site: SITES_EBR[i], nth, ops: 0 }),
        1 => Just(Until::End),
    ];
    (0..n, until).prop_map(|(thread, until)| Directive { thread, until })
}

pub fn free(w: EW, max_threads: usize, max_ops: usize, max_dirs: usize) -> BoxedStrategy<Value> {
    (2..=max_threads)
        .prop_flat_map(move |n| {
            (
                0u8..20,
                proptest::collection::vec(proptest::collection::vec(eop(w), 0..=max_ops), n..=n),
                proptest::collection::vec(edirective(n as u8), 0..=max_dirs),
                any::<bool>(),
            )
        })
        .prop_map(|(align, threads, sched, survivor)| {
            serde_json::to_value(EbrCase {
                align,
                threads,
                sched,
                private: false,
                survivor,
            })
            .unwrap()
        })
        .boxed()
}

pub fn private(w: EW, max_ops: usize) -> BoxedStrategy<Value> {
    proptest::collection::vec(eop(w), 0..=max_ops)
        .prop_map(|ops| {
            serde_json::to_value(EbrCase {
                align: 0,
                threads: vec![ops],
                sched: vec![],
                private: true,
                survivor: false,
            })
            .unwrap()
        })
        .boxed()
}

/// E1: a collecting thread whose bag overflows *inside* try_advance's registry scan (because the
/// scan unlinks the entry of an exited thread and defers its destruction), with a peer advancing
/// the epoch around that moment. A lagging participant D keeps the collecting thread's own
/// periodic try_advance (every 64th deferral) from moving the epoch while the bag fills up.
/// Parameters: bag fill level at unpin, park positions, peer rounds, number of exited threads.
pub fn e1() -> BoxedStrategy<Value> {
    (
        0u8..20,
        (58u32..70, 1u32..4, 0u32..90, 0u32..60),
        (0u8..3, 0u8..3, 0u8..3, 1u8..3, any::<bool>(), any::<bool>()),
    )
        .prop_map(|(align, (fill, nth, n2, n3), (r1, r2, r3, exited, flush_first, with_lagger))| {
            let d = |k: EK, a: u8| EOp { k, a, b: 0 };
            let mut a: Vec<EOp> = vec![d(EK::Pin, 0)];
            if flush_first {
                a.push(d(EK::Flush, 0));
            }
            a.push(d(EK::Burst, 1));
            for _ in 45..fill {
                a.push(d(EK::Defer, 0));
            }
            if !flush_first {
                a.push(d(EK::Flush, 0));
            }
            let setup = a.len() as u32;
            a.push(d(EK::DropGuard, 0));
            a.push(d(EK::Round, 0));
            let b: Vec<EOp> = (0..(r1 + r2 + r3 + 2)).map(|_| d(EK::Round, 0)).collect();
            let dd: Vec<EOp> = vec![d(EK::Pin, 0), d(EK::DropGuard, 0)];
            let mut threads = vec![a, b, dd];
            for _ in 0..exited {
                threads.push(vec![d(EK::Nop, 1)]);
            }
            let (ta, tb, td) = (0u8, 1u8, 2u8);
            let mut sched = Vec::new();
            for t in 0..exited {
                sched.push(Directive { thread: 3 + t, until: Until::OpIndex(1) });
            }
            if with_lagger {
                sched.push(Directive { thread: td, until: Until::OpIndex(1) });
                sched.push(Directive { thread: tb, until: Until::OpIndex(1) });
            }
            sched.push(Directive { thread: ta, until: Until::OpIndex(setup) });
            for t in 0..exited {
                sched.push(Directive { thread: 3 + t, until: Until::End });
            }
            if with_lagger {
                sched.push(Directive { thread: td, until: Until::OpIndex(2) });
            }
            let base = if with_lagger { 1 } else { 0 };
            sched.push(Directive { thread: ta, until: Until::Site { site: site::EPOCH_LOADED, nth, ops: 1 } });
            sched.push(Directive { thread: tb, until: Until::OpIndex(base + r1 as u32) });
            sched.push(Directive { thread: ta, until: Until::Steps(n2) });
            sched.push(Directive { thread: tb, until: Until::OpIndex(base + (r1 + r2) as u32) });
            sched.push(Directive { thread: ta, until: Until::Steps(n3) });
            sched.push(Directive { thread: tb, until: Until::OpIndex(base + (r1 + r2 + r3) as u32) });
            sched.push(Directive { thread: ta, until: Until::End });
            serde_json::to_value(EbrCase { align, threads, sched, private: false, survivor: false }).unwrap()
        })
        .boxed()
}

// ---- bounded-exhaustive schedules for two-thread micro-programs (two preemption points) ----

struct EMicro {
    name: &'static str,
    a: &'static [(EK, u8, u8)],
    b: &'static [(EK, u8, u8)],
    /// a third thread that registers and exits immediately (its registry entry gets unlinked by
    /// whoever traverses next)
    exiting_third: bool,
    ka: u32,
    kb: u32,
}

const EMICROS: &[EMicro] = &[
    EMicro {
        name: "pin+defer+unpin+rounds || pin+defer+unpin+rounds",
        a: &[(EK::Pin, 0, 0), (EK::Defer, 0, 0), (EK::DropGuard, 0, 0), (EK::Round, 0, 0), (EK::Round, 0, 0), (EK::Round, 0, 0)],
        b: &[(EK::Pin, 0, 0), (EK::Defer, 0, 3), (EK::DropGuard, 0, 0), (EK::Round, 0, 0), (EK::Round, 0, 0), (EK::Round, 0, 0)],
        exiting_third: false,
        ka: 170,
        kb: 200,
    },
    EMicro {
        name: "pin+burst70+unpin || rounds",
        a: &[(EK::Pin, 0, 0), (EK::Burst, 2, 0), (EK::DropGuard, 0, 0), (EK::Round, 0, 0)],
        b: &[(EK::Round, 0, 0), (EK::Round, 0, 0), (EK::Round, 0, 0), (EK::Round, 0, 0)],
        exiting_third: true,
        ka: 130,
        kb: 240,
    },
    EMicro {
        name: "nested pin + reactivate inner + defer || pin+defer+rounds",
        a: &[(EK::Pin, 0, 0), (EK::Defer, 0, 1), (EK::Pin, 0, 0), (EK::Reactivate, 255, 0), (EK::DropGuard, 255, 0), (EK::Defer, 0, 4), (EK::DropGuard, 0, 0), (EK::Round, 0, 0)],
        b: &[(EK::Pin, 0, 0), (EK::Defer, 0, 2), (EK::DropGuard, 0, 0), (EK::Round, 0, 0), (EK::Round, 0, 0), (EK::Round, 0, 0), (EK::Round, 0, 0)],
        exiting_third: false,
        ka: 80,
        kb: 270,
    },
    EMicro {
        name: "pin+defer+reactivate_after+unpin || rounds with deferrals",
        a: &[(EK::Pin, 0, 0), (EK::Defer, 0, 5), (EK::ReactivateAfter, 0, 1), (EK::Defer, 0, 6), (EK::DropGuard, 0, 0), (EK::Round, 0, 0)],
        b: &[(EK::Round, 0, 0), (EK::Pin, 0, 0), (EK::Defer, 0, 7), (EK::DropGuard, 0, 0), (EK::Round, 0, 0), (EK::Round, 0, 0), (EK::Round, 0, 0)],
        exiting_third: true,
        ka: 140,
        kb: 250,
    },
    EMicro {
        name: "defer + exit with pending garbage || pinned peer + rounds",
        a: &[(EK::Pin, 0, 0), (EK::Defer, 0, 8), (EK::Defer, 0, 4), (EK::DropGuard, 0, 0)],
        b: &[(EK::Pin, 0, 0), (EK::Defer, 0, 1), (EK::DropGuard, 0, 0), (EK::Round, 0, 0), (EK::Round, 0, 0), (EK::Round, 0, 0), (EK::Round, 0, 0)],
        exiting_third: false,
        ka: 40,
        kb: 260,
    },
];

pub fn emicro_total(tier: crate::runner::Tier) -> u64 {
    let stride: u32 = tier.pick(3, 1);
    EMICROS.iter().map(|m| 2 * ((m.ka + stride - 1) / stride + 1) as u64 * ((m.kb + stride - 1) / stride + 1) as u64).sum()
}

pub fn emicro_enumerate(tier: crate::runner::Tier, i: u64) -> Option<Value> {
    let stride: u32 = tier.pick(3, 1);
    let mut rest = i;
    for m in EMICROS {
        let (na, nb) = ((m.ka + stride - 1) / stride + 1, (m.kb + stride - 1) / stride + 1);
        let per = 2 * na as u64 * nb as u64;
        if rest >= per {
            rest -= per;
            continue;
        }
        let order = rest / (na as u64 * nb as u64);
        let r2 = rest % (na as u64 * nb as u64);
        let (ia, ib) = ((r2 / nb as u64) as u32, (r2 % nb as u64) as u32);
        let k = if ia + 1 == na { u32::MAX / 2 } else { ia * stride };
        let mm = if ib + 1 == nb { u32::MAX / 2 } else { ib * stride };
        let ops = |l: &[(EK, u8, u8)]| l.iter().map(|(k, a, b)| EOp { k: *k, a: *a, b: *b }).collect::<Vec<_>>();
        let mut threads = vec![ops(m.a), ops(m.b)];
        let mut sched = Vec::new();
        if m.exiting_third {
            threads.push(vec![]);
            sched.push(Directive { thread: 2, until: Until::End });
        }
        let (first, second, kf, ks) = if order == 0 { (0u8, 1u8, k, mm) } else { (1u8, 0u8, mm, k) };
        sched.push(Directive { thread: first, until: Until::Steps(kf) });
        sched.push(Directive { thread: second, until: Until::Steps(ks) });
        sched.push(Directive { thread: first, until: Until::End });
        sched.push(Directive { thread: second, until: Until::End });
        let _ = m.name;
        return Some(serde_json::to_value(EbrCase { align: (i % 5) as u8, threads, sched, private: false, survivor: false }).unwrap());
    }
    None
}

/// E2: a thread with nested guards re-activates one of them again and again while a peer defers
/// and collects; nothing deferred during the life of the older guard may run before it is gone.
pub fn e2() -> BoxedStrategy<Value> {
    (0u8..20, 1u32..7, 1u8..4, any::<u8>(), any::<bool>(), 0u8..3)
        .prop_map(|(align, r, rounds, which, a_defers, kind)| {
            let d = |k: EK, a: u8, b: u8| EOp { k, a, b };
            let mut a = vec![d(EK::Pin, 0, 0), d(EK::Pin, 0, 0)];
            let mut b = Vec::new();
            let mut sched = Vec::new();
            sched.push(Directive { thread: 0, until: Until::OpIndex(2) });
            for i in 0..r {
                if a_defers {
                    a.push(d(EK::Defer, 0, i as u8));
                }
                a.push(d(match kind { 0 => EK::Reactivate, 1 => EK::ReactivateAfter, _ => if i % 2 == 0 { EK::Reactivate } else { EK::ReactivateAfter } }, which, 0));
                b.push(d(EK::Pin, 0, 0));
                b.push(d(EK::Defer, 0, (i as u8).wrapping_mul(3)));
                b.push(d(EK::DropGuard, 0, 0));
                for _ in 0..rounds {
                    b.push(d(EK::Round, 0, 0));
                }
                sched.push(Directive { thread: 1, until: Until::OpIndex(b.len() as u32) });
                sched.push(Directive { thread: 0, until: Until::OpIndex(a.len() as u32) });
            }
            for _ in 0..4 {
                b.push(d(EK::Round, 0, 0));
            }
            sched.push(Directive { thread: 1, until: Until::OpIndex(b.len() as u32) });
            a.push(d(EK::DropGuard, 255, 0));
            a.push(d(EK::DropGuard, 0, 0));
            serde_json::to_value(EbrCase { align, threads: vec![a, b], sched, private: false, survivor: false }).unwrap()
        })
        .boxed()
}

/// E3: a registry scan that unlinks several bag-loads of exited participants while the epoch keeps
/// advancing. Thread H registers many extra participants and retires them in stages; thread A runs
/// a collection whose scan unlinks them (every unlink is a deferral: every 64th fills A's bag,
/// seals it and may re-pin A); A is parked right after each seal (or after a generated number of
/// unlinks), B runs collection rounds (advancing the epoch, freeing expired bags) in between.
/// With the prologue, B first leaves two sealed bags in the queue and lets them age, so that A's
/// collection pops one of them (and B the next one) in the middle of all this.
pub fn e3() -> BoxedStrategy<Value> {
    (
        0u8..20,
        prop_oneof![1 => 0u8..70, 1 => Just(63u8)],
        (64u8..74, 64u8..74, 64u8..74, 64u8..74, 64u8..74),
        (0u32..8, 0u32..8, 0u32..8),
        (1u8..3, 1u8..3, 1u8..4),
        (3usize..6, 0u8..4, any::<bool>(), 0u8..5),
    )
        .prop_map(|(align, pre, (n1, n2, n3, n4, n5), (j1, j2, j3), (r1, r2, r3), (nstages, by_unlinks, prologue, r0))| {
            let d = |k: EK, a: u8, b: u8| EOp { k, a, b };
            let (a_t, b_t, h_t) = (0u8, 1u8, 2u8);
            let stages: Vec<u8> = [n1, n2, n3, n4, n5][..nstages].to_vec();
            let total: usize = stages.iter().map(|x| *x as usize).sum();
            let mut h = vec![d(EK::RegExtra, (total.min(255)) as u8, (total - total.min(255)) as u8)];
            let mut a = vec![d(EK::Pin, 0, 0)];
            for i in 0..pre {
                a.push(d(EK::Defer, 0, i));
            }
            a.push(d(EK::Flush, 0, 0));
            let a_ready = a.len() as u32;
            a.push(d(EK::DropGuard, 0, 0));
            let mut b = Vec::new();
            let mut sched = Vec::new();
            // everybody registers first (so that the extra participants are nearest to the head)
            b.push(d(EK::Round, 0, 0));
            sched.push(Directive { thread: b_t, until: Until::OpIndex(1) });
            sched.push(Directive { thread: h_t, until: Until::OpIndex(1) });
            if prologue {
                b.push(d(EK::Pin, 0, 0));
                b.push(d(EK::Defer, 0, 1));
                b.push(d(EK::Flush, 0, 0));
                b.push(d(EK::Defer, 0, 2));
                b.push(d(EK::Flush, 0, 0));
                b.push(d(EK::DropGuard, 0, 0));
                for _ in 0..r0 {
                    b.push(d(EK::Round, 0, 0));
                }
                sched.push(Directive { thread: b_t, until: Until::OpIndex(b.len() as u32) });
            }
            sched.push(Directive { thread: a_t, until: Until::OpIndex(a_ready) });
            let jit = [j1, j2, j3, j1, j2];
            let rounds = [r1, r2, r3, r3, r3];
            for (i, n) in stages.iter().enumerate() {
                h.push(d(EK::UnregExtra, *n, 0));
                sched.push(Directive { thread: h_t, until: Until::OpIndex(h.len() as u32) });
                // A unlinks this stage and is parked in the middle of its scan
                if by_unlinks == 0 {
                    let nth = (*n as u32 + jit[i]).saturating_sub(4).max(1);
                    sched.push(Directive { thread: a_t, until: Until::Event { kind: circ::verif::ev::REGISTRY_UNLINK, nth } });
                } else {
                    sched.push(Directive { thread: a_t, until: Until::Event { kind: circ::verif::ev::BAG_SEALED, nth: 1 } });
                    if jit[i] > 3 {
                        sched.push(Directive { thread: a_t, until: Until::Steps(jit[i] - 3) });
                    }
                }
                for _ in 0..rounds[i] {
                    b.push(d(EK::Round, 0, 0));
                }
                sched.push(Directive { thread: b_t, until: Until::OpIndex(b.len() as u32) });
            }
            sched.push(Directive { thread: a_t, until: Until::End });
            for _ in 0..4 {
                b.push(d(EK::Round, 0, 0));
            }
            serde_json::to_value(EbrCase { align, threads: vec![a, b, h], sched, private: false, survivor: false }).unwrap()
        })
        .boxed()
}

/// E4: one `unpin` whose collection loop goes round several times, because the deferred functions
/// it runs flush or overflow again; every round moves the epoch on and re-pins the thread. Thread X
/// prepares bags sealed at consecutive epochs, each holding a function that uses the API when it
/// runs (flush / 70 / 200 deferrals under a guard of its own); thread Y enters a critical section
/// at a generated point in the middle of X's long unpin and stays in it.
pub fn e4() -> BoxedStrategy<Value> {
    (
        0u8..20,
        proptest::collection::vec((prop_oneof![3 => Just(1u8), 2 => Just(4u8), 2 => Just(5u8), 1 => Just(2u8), 1 => Just(0u8)], any::<u8>(), 0u8..3), 3..7),
        (1u32..6, 0u32..40, any::<bool>(), 0u8..3),
    )
        .prop_map(|(align, rounds, (nth, jitter, y_defers, y_rounds_after))| {
            let d = |k: EK, a: u8, b: u8| EOp { k, a, b };
            let (x_t, y_t) = (0u8, 1u8);
            let mut x = Vec::new();
            let mut sched = Vec::new();
            let mut y = vec![d(EK::Round, 0, 0)];
            sched.push(Directive { thread: y_t, until: Until::OpIndex(1) });
            let n = rounds.len();
            for (i, (mode, class, extra)) in rounds.iter().enumerate() {
                x.push(d(EK::Pin, 0, 0));
                for j in 0..*extra {
                    x.push(d(EK::Defer, 0, class.wrapping_add(j)));
                }
                x.push(d(EK::DeferNested, *mode, *class));
                x.push(d(EK::Flush, 0, 0));
                if i + 1 == n {
                    // the last unpin is the long one: park X in the middle of it
                    sched.push(Directive { thread: x_t, until: Until::OpIndex(x.len() as u32) });
                    sched.push(Directive { thread: x_t, until: Until::Event { kind: circ::verif::ev::BAG_SEALED, nth } });
                    if jitter > 0 {
                        sched.push(Directive { thread: x_t, until: Until::Steps(jitter) });
                    }
                }
                x.push(d(EK::DropGuard, 0, 0));
            }
            y.push(d(EK::Pin, 0, 0));
            if y_defers {
                y.push(d(EK::Defer, 0, 7));
            }
            sched.push(Directive { thread: y_t, until: Until::OpIndex(y.len() as u32) });
            sched.push(Directive { thread: x_t, until: Until::End });
            y.push(d(EK::DropGuard, 0, 0));
            for _ in 0..y_rounds_after {
                y.push(d(EK::Round, 0, 0));
            }
            serde_json::to_value(EbrCase { align, threads: vec![x, y], sched, private: false, survivor: false }).unwrap()
        })
        .boxed()
}
