//! Checks over pure functions and small sequential API programs: C11 (tagging), C12 a/b (count
//! word fields, modular epoch comparison), C19 (Eq/Ord/Hash).

use std::collections::hash_map::DefaultHasher;
use std::hash::{Hash, Hasher};
use std::sync::atomic::Ordering::SeqCst;

use circ::verif::tagged as tg;
use circ::{cs, AtomicRc, AtomicWeak, Rc, RcObject, Snapshot, Weak};
use proptest::prelude::*;
use proptest::strategy::BoxedStrategy;
use serde::{Deserialize, Serialize};
use serde_json::Value;

use crate::runner::{violation, Report};

// ------------------------------------------------------------------------------------------------
// C11 (a): Tagged<T> on plain words, at many alignments

#[repr(align(1))]
pub struct A1(#[allow(dead_code)] u8);
#[repr(align(2))]
pub struct A2(#[allow(dead_code)] u8);
#[repr(align(4))]
pub struct A4(#[allow(dead_code)] u8);
#[repr(align(8))]
pub struct A8(#[allow(dead_code)] u8);
#[repr(align(16))]
pub struct A16(#[allow(dead_code)] u8);
#[repr(align(64))]
pub struct A64(#[allow(dead_code)] u8);
#[repr(align(4096))]
pub struct A4096(#[allow(dead_code)] u8);

pub const ALIGNS: [usize; 7] = [1, 2, 4, 8, 16, 64, 4096];
const HIGH: usize = 0xF << 60;

#[derive(Serialize, Deserialize, Clone, Debug)]
pub struct TagCase {
    pub align_idx: usize,
    /// (address selector, tag, timestamp, second tag, second timestamp)
    pub items: Vec<(u64, u64, u64, u64, u64)>,
    #[serde(default)]
    pub exhaustive: bool,
}

fn addr_from(sel: u64, align: usize) -> usize {
    // boundaries and random aligned addresses below 2^60
    let max = (1usize << 60) - align;
    match sel % 8 {
        0 => 0,
        1 => align,
        2 => max,
        3 => (1usize << 47) & !(align - 1),
        _ => ((sel as usize) >> 3) % (1usize << 60) & !(align - 1),
    }
}

fn fail11(what: &str, align: usize, addr: usize, tag: usize, ts: usize, got: String) -> ! {
    violation(
        "C11",
        "O-tagged",
        &format!("O-tagged/{}", what),
        &format!(
            "Tagged<align {}>: {} violated for address {:#x}, tag {:#x}, timestamp {:#x}: {}",
            align, what, addr, tag, ts, got
        ),
    )
}

fn check_tagged<T>(align: usize, addr: usize, tag: usize, ts: usize, tag2: usize, ts2: usize) {
    assert_eq!(std::mem::align_of::<T>(), align);
    let mask = align - 1;
    let w1 = tg::with_tag::<T>(addr, tag);
    if tg::tag::<T>(w1) != tag & mask {
        fail11("tag-roundtrip", align, addr, tag, ts, format!("tag()={:#x}", tg::tag::<T>(w1)));
    }
    if tg::as_raw::<T>(w1) != addr {
        fail11("with_tag-keeps-address", align, addr, tag, ts, format!("as_raw()={:#x}", tg::as_raw::<T>(w1)));
    }
    if tg::high_tag::<T>(w1) != 0 {
        fail11("with_tag-keeps-timestamp", align, addr, tag, ts, format!("high_tag()={:#x}", tg::high_tag::<T>(w1)));
    }
    if w1 & !(mask | HIGH) != addr {
        fail11("with_tag-word", align, addr, tag, ts, format!("word={:#x}", w1));
    }
    let w2 = tg::with_high_tag::<T>(w1, ts);
    if tg::high_tag::<T>(w2) != ts & 15 {
        fail11("timestamp-roundtrip", align, addr, tag, ts, format!("high_tag()={:#x}", tg::high_tag::<T>(w2)));
    }
    if tg::tag::<T>(w2) != tag & mask || tg::as_raw::<T>(w2) != addr {
        fail11(
            "timestamp-independent-of-tag-and-address",
            align,
            addr,
            tag,
            ts,
            format!("tag()={:#x} as_raw()={:#x}", tg::tag::<T>(w2), tg::as_raw::<T>(w2)),
        );
    }
    if !tg::ptr_eq::<T>(w2, w1) || !tg::ptr_eq::<T>(w1, w2) {
        fail11("ptr_eq-ignores-timestamp", align, addr, tag, ts, format!("{:#x} vs {:#x}", w1, w2));
    }
    if tg::is_null::<T>(w2) != (addr == 0) || tg::is_null::<T>(w1) != (addr == 0) {
        fail11("is_null-ignores-tag-and-timestamp", align, addr, tag, ts, format!("is_null({:#x})={}", w2, tg::is_null::<T>(w2)));
    }
    let want_p = format!("{:p}", addr as *const u8);
    if tg::fmt_pointer::<T>(w2) != want_p || tg::fmt_debug::<T>(w2) != want_p {
        fail11("formatting-ignores-tag-and-timestamp", align, addr, tag, ts, format!("{{:p}}={} {{:?}}={} want {}", tg::fmt_pointer::<T>(w2), tg::fmt_debug::<T>(w2), want_p));
    }
    // re-tagging a stamped pointer keeps stamp and address
    let w3 = tg::with_tag::<T>(w2, tag2);
    if tg::tag::<T>(w3) != tag2 & mask || tg::high_tag::<T>(w3) != ts & 15 || tg::as_raw::<T>(w3) != addr {
        fail11("retag-keeps-timestamp-and-address", align, addr, tag2, ts, format!("word={:#x}", w3));
    }
    // re-stamping keeps tag and address
    let w4 = tg::with_high_tag::<T>(w2, ts2);
    if tg::tag::<T>(w4) != tag & mask || tg::high_tag::<T>(w4) != ts2 & 15 || tg::as_raw::<T>(w4) != addr {
        fail11("restamp-keeps-tag-and-address", align, addr, tag, ts2, format!("word={:#x}", w4));
    }
    // ptr_eq is identity plus tag, whatever the stamps
    let other = tg::with_high_tag::<T>(tg::with_tag::<T>(addr, tag2), ts2);
    let want = tag & mask == tag2 & mask;
    if tg::ptr_eq::<T>(w2, other) != want {
        fail11("ptr_eq-is-address-plus-tag", align, addr, tag, ts, format!("{:#x} vs {:#x} gave {}", w2, other, !want));
    }
    if addr >= align {
        let other_addr = tg::with_high_tag::<T>(tg::with_tag::<T>(addr - align, tag), ts);
        if tg::ptr_eq::<T>(w2, other_addr) {
            fail11("ptr_eq-distinguishes-addresses", align, addr, tag, ts, format!("{:#x} vs {:#x}", w2, other_addr));
        }
    }
    // null
    let n = tg::with_high_tag::<T>(tg::with_tag::<T>(tg::null_word::<T>(), tag), ts);
    if !tg::is_null::<T>(n) || tg::as_raw::<T>(n) != 0 {
        fail11("tagged-stamped-null-is-null", align, 0, tag, ts, format!("word={:#x}", n));
    }
}

fn dispatch(align_idx: usize, addr: usize, tag: usize, ts: usize, tag2: usize, ts2: usize) {
    match align_idx {
        0 => check_tagged::<A1>(1, addr, tag, ts, tag2, ts2),
        1 => check_tagged::<A2>(2, addr, tag, ts, tag2, ts2),
        2 => check_tagged::<A4>(4, addr, tag, ts, tag2, ts2),
        3 => check_tagged::<A8>(8, addr, tag, ts, tag2, ts2),
        4 => check_tagged::<A16>(16, addr, tag, ts, tag2, ts2),
        5 => check_tagged::<A64>(64, addr, tag, ts, tag2, ts2),
        _ => check_tagged::<A4096>(4096, addr, tag, ts, tag2, ts2),
    }
}

pub fn tag_strategy() -> BoxedStrategy<Value> {
    let tagv = prop_oneof![
        3 => 0u64..16,
        2 => 0u64..10000,
        2 => any::<u64>(),
        1 => Just(u64::MAX),
    ];
    let tsv = prop_oneof![3 => 0u64..16, 1 => any::<u64>()];
    (
        0usize..7,
        proptest::collection::vec((any::<u64>(), tagv.clone(), tsv.clone(), tagv, tsv), 1..24),
    )
        .prop_map(|(align_idx, items)| {
            serde_json::to_value(TagCase {
                align_idx,
                items,
                exhaustive: false,
            })
            .unwrap()
        })
        .boxed()
}

pub fn tag_exhaustive_strategy() -> BoxedStrategy<Value> {
    (0usize..7)
        .prop_map(|align_idx| {
            serde_json::to_value(TagCase {
                align_idx,
                items: vec![],
                exhaustive: true,
            })
            .unwrap()
        })
        .boxed()
}

pub fn exec_c11a(_prop: &str, v: &Value) -> Report {
    let case: TagCase = serde_json::from_value(v.clone()).expect("bad TagCase");
    let align = ALIGNS[case.align_idx % 7];
    let mut rep = Report::default();
    let mut n = 0u64;
    if case.exhaustive {
        // 16 timestamps x all tags < 2*align (capped) x boundary addresses, enumerated completely
        let tmax = (2 * align).min(64);
        for sel in 0..4u64 {
            let addr = addr_from(sel, align);
            for tag in 0..tmax {
                for ts in 0..16 {
                    dispatch(case.align_idx % 7, addr, tag, ts, (tag + 1) % tmax, (ts + 5) % 16);
                    n += 1;
                }
            }
        }
        rep.nontrivial = true;
        rep.label("exhaustive-subspace");
    } else {
        for (sel, tag, ts, tag2, ts2) in &case.items {
            let addr = addr_from(*sel, align);
            dispatch(case.align_idx % 7, addr, *tag as usize, *ts as usize, *tag2 as usize, *ts2 as usize);
            n += 1;
            if (*tag as usize) > align - 1 || *ts % 16 != 0 {
                rep.nontrivial = true;
            }
        }
    }
    rep.count("tuples_checked", n);
    rep.label(&format!("align{}", align));
    rep
}

// ------------------------------------------------------------------------------------------------
// C11 (b): public API on real objects with payload alignment 8 / 16 / 64

macro_rules! payload {
    ($name:ident, $align:expr) => {
        #[derive(Debug)]
        #[repr(align($align))]
        pub struct $name {
            pub v: u64,
        }
        unsafe impl RcObject for $name {
            fn pop_edges(&mut self, _: &mut Vec<Rc<Self>>) {}
        }
    };
}
payload!(Pay8, 8);
payload!(Pay16, 16);
payload!(Pay64, 64);

#[derive(Serialize, Deserialize, Clone, Debug)]
pub struct ApiTagCase {
    pub align_sel: u8,
    pub start_epoch: u8,
    pub tag: u64,
    pub tag2: u64,
    pub gap: u8,
    pub val: u64,
}

pub fn api_tag_strategy() -> BoxedStrategy<Value> {
    (
        0u8..3,
        0u8..40,
        prop_oneof![0u64..8, 0u64..100, any::<u64>()],
        prop_oneof![0u64..8, any::<u64>()],
        0u8..20,
        any::<u64>(),
    )
        .prop_map(|(align_sel, start_epoch, tag, tag2, gap, val)| {
            serde_json::to_value(ApiTagCase {
                align_sel,
                start_epoch,
                tag,
                tag2,
                gap,
                val,
            })
            .unwrap()
        })
        .boxed()
}

fn round() {
    let g = cs();
    g.flush();
}

fn fail11b(what: &str, detail: String) -> ! {
    violation("C11", "O-api-tag", &format!("O-api-tag/{}", what), &detail)
}

fn api_tag<P: RcObject + std::fmt::Debug + 'static>(mk: impl Fn(u64) -> P, val_of: impl Fn(&P) -> u64, c: &ApiTagCase) -> bool {
    // the count word (8 bytes) sits next to the payload: the block is at least 8-aligned
    let balign = std::mem::align_of::<P>().max(8);
    let mask = balign - 1;
    for _ in 0..c.start_epoch {
        round();
    }
    let (t, t2) = (c.tag as usize, c.tag2 as usize);
    let rc = Rc::new(mk(c.val));
    let base = rc.as_ref().unwrap() as *const P as usize;
    let p0 = format!("{:p}", rc);
    let tagged = rc.clone().with_tag(t);
    if tagged.tag() != t & mask {
        fail11b("rc-tag-roundtrip", format!("with_tag({:#x}).tag() = {:#x}, alignment {}", t, tagged.tag(), balign));
    }
    if tagged.as_ref().map(|p| p as *const P as usize) != Some(base) || val_of(tagged.as_ref().unwrap()) != c.val {
        fail11b("rc-tag-keeps-address", format!("dereference after with_tag({:#x}) reads another location", t));
    }
    if format!("{:p}", tagged) != p0 {
        fail11b("rc-format", format!("{{:p}} changed by with_tag: {} vs {}", format!("{:p}", tagged), p0));
    }
    if tagged.ptr_eq(&rc) != (t & mask == 0) {
        fail11b("rc-ptr_eq-tag", format!("ptr_eq(tagged {:#x}, untagged) = {}", t, tagged.ptr_eq(&rc)));
    }
    let cell = AtomicRc::<P>::null();
    let wcell = AtomicWeak::<P>::null();
    // write at epoch e
    let e1 = circ::verif::global_epoch();
    let (rc1, w1, d1);
    {
        let g = cs();
        cell.store(tagged.clone(), SeqCst, &g);
        let s1 = cell.load(SeqCst, &g);
        if s1.tag() != t & mask || s1.is_null() {
            fail11b("snapshot-tag", format!("loaded tag {:#x}, stored {:#x}", s1.tag(), t & mask));
        }
        if s1.as_ref().map(|p| p as *const P as usize) != Some(base) {
            fail11b("snapshot-address", "snapshot dereferences another location".into());
        }
        if !s1.ptr_eq(tagged.snapshot(&g)) {
            fail11b("snapshot-ptr_eq-timestamp", format!("a pointer loaded from a cell written at epoch {} is not ptr_eq to the Rc that was stored", e1));
        }
        if format!("{:p}", s1) != p0 || format!("{:?}", s1) != format!("{:?}", rc) {
            fail11b("snapshot-format", format!("{{:p}}/{{:?}} of the loaded snapshot differ: {:p} vs {}", s1, p0));
        }
        // exclusive dereference must strip tag and epoch bits exactly like the shared one (addresses
        // are only compared, never accessed)
        unsafe {
            let m1 = s1.as_mut().map(|p| p as *mut P as usize);
            let m2 = s1.deref_mut() as *mut P as usize;
            if m1 != Some(base) || m2 != base {
                fail11b("snapshot-deref_mut-address", format!("Snapshot::as_mut/deref_mut yield {:#x?}/{:#x}, the shared dereference yields {:#x} (write epoch {})", m1, m2, base, e1));
            }
        }
        let s1b = s1.with_tag(t2);
        if s1b.tag() != t2 & mask || s1b.as_ref().map(|p| p as *const P as usize) != Some(base) {
            fail11b("snapshot-retag", "Snapshot::with_tag corrupted tag or address".into());
        }
        rc1 = s1.counted();
        w1 = rc1.downgrade();
        let ws = s1.downgrade();
        if ws.tag() != t & mask || ws.is_null() || !ws.ptr_eq(w1.snapshot(&g)) {
            fail11b("weaksnapshot", "WeakSnapshot tag / is_null / ptr_eq disagree with the pointer it came from".into());
        }
        wcell.store(w1.clone(), SeqCst, &g);
        d1 = format!("{:?}", w1);
    }
    for _ in 0..c.gap {
        round();
    }
    let e2 = circ::verif::global_epoch();
    {
        let g = cs();
        // the same pointer written again at a later epoch
        cell.store(rc.clone().with_tag(t), SeqCst, &g);
        let s2 = cell.load(SeqCst, &g);
        let rc2 = s2.counted();
        if !rc2.ptr_eq(&rc1) || !rc1.ptr_eq(&rc2) || !s2.ptr_eq(rc1.snapshot(&g)) {
            fail11b("ptr_eq-across-epochs", format!("the same object and tag written at epochs {} and {} are not ptr_eq (words {:#x} / {:#x})", e1, e2, circ::verif::rc_word(&rc1), circ::verif::rc_word(&rc2)));
        }
        if rc2.tag() != rc1.tag() || format!("{:p}", rc2) != format!("{:p}", rc1) || format!("{:?}", rc2) != format!("{:?}", rc1) {
            fail11b("tag-format-across-epochs", "tag or formatting depends on the write epoch".into());
        }
        if rc2.as_ref().map(|p| p as *const P as usize) != Some(base) {
            fail11b("deref-across-epochs", "dereference depends on the write epoch".into());
        }
        {
            let mut tmp = rc2.clone().with_tag(t2);
            let (m1, m2, m3) = unsafe {
                (
                    tmp.as_mut().map(|p| p as *mut P as usize),
                    tmp.deref_mut() as *mut P as usize,
                    tmp.deref() as *const P as usize,
                )
            };
            if m1 != Some(base) || m2 != base || m3 != base {
                fail11b("rc-deref_mut-address", format!("Rc::as_mut/deref_mut/deref yield {:#x?}/{:#x}/{:#x}, as_ref yields {:#x} (write epoch {}, tag {:#x})", m1, m2, m3, base, e2, t2));
            }
            let s2m = s2.with_tag(t2);
            let (n1, n2) = unsafe { (s2m.deref_mut() as *mut P as usize, s2m.deref() as *const P as usize) };
            if n1 != base || n2 != base {
                fail11b("snapshot-deref_mut-address", format!("Snapshot::deref_mut/deref yield {:#x}/{:#x}, as_ref yields {:#x} (write epoch {})", n1, n2, base, e2));
            }
        }
        let w2 = rc2.downgrade();
        if !w2.ptr_eq(&w1) || w2.tag() != w1.tag() || format!("{:p}", w2) != format!("{:p}", w1) || format!("{:?}", w2) != d1 {
            fail11b("weak-across-epochs", "Weak ptr_eq / tag / formatting depends on the epoch bits".into());
        }
        let wl = wcell.load(SeqCst, &g);
        if !wl.ptr_eq(w2.snapshot(&g)) || wl.tag() != t & mask || wl.is_null() {
            fail11b("weak-cell-across-epochs", "pointer loaded from AtomicWeak differs (ptr_eq/tag/is_null) from an equal Weak stamped at another epoch".into());
        }
        let w3 = w2.clone().with_tag(t2);
        if w3.tag() != t2 & mask || w3.is_null() {
            fail11b("weak-retag", "Weak::with_tag lost the tag".into());
        }
        match w3.upgrade() {
            Some(r) => {
                if r.tag() != t2 & mask || r.as_ref().map(|p| p as *const P as usize) != Some(base) {
                    fail11b("upgrade-keeps-tag-and-address", "upgrade of a tagged Weak changed tag or address".into());
                }
            }
            None => fail11b("upgrade-live", "upgrade of a live object failed".into()),
        }
        // tagged null
        let n = Rc::<P>::null().with_tag(t);
        if !n.is_null() || n.as_ref().is_some() || n.tag() != t & mask {
            fail11b("tagged-null-rc", format!("Rc::null().with_tag({:#x}) is_null={} tag={:#x}", t, n.is_null(), n.tag()));
        }
        let ncell = AtomicRc::<P>::null();
        ncell.store(n, SeqCst, &g);
        let ns = ncell.load(SeqCst, &g);
        if !ns.is_null() || ns.as_ref().is_some() || ns.tag() != t & mask {
            fail11b("tagged-null-snapshot", "tagged null stored and loaded is not null or lost its tag".into());
        }
        let old = ncell.swap(Rc::null(), SeqCst);
        if !old.is_null() || old.tag() != t & mask {
            fail11b("tagged-null-swap", "tagged null came back from swap as non-null or with another tag".into());
        }
        let nw = Weak::<P>::null().with_tag(t2);
        if !nw.is_null() || nw.tag() != t2 & mask || !nw.snapshot(&g).is_null() {
            fail11b("tagged-null-weak", "tagged null Weak is not null".into());
        }
        if !Snapshot::<P>::null().with_tag(t).is_null() {
            fail11b("tagged-null-snapshot", "Snapshot::null().with_tag is not null".into());
        }
    }
    // the rest of the public surface: constructors, conversions, Default, Clone, formatting of the
    // cells (which print the stored pointer without tag and epoch bits), get_mut
    {
        let g = cs();
        let c2 = AtomicRc::<P>::new(mk(c.val ^ 1));
        let l = c2.load(SeqCst, &g);
        if l.is_null() || l.tag() != 0 || val_of(l.as_ref().unwrap()) != c.val ^ 1 {
            fail11b("atomic-rc-new", "AtomicRc::new does not hold the new object untagged".into());
        }
        if !AtomicRc::<P>::default().load(SeqCst, &g).is_null() || !AtomicWeak::<P>::default().load(SeqCst, &g).is_null() {
            fail11b("cell-default", "a default cell is not null".into());
        }
        let c3 = AtomicRc::<P>::from(&tagged);
        let l3 = c3.load(SeqCst, &g);
        if !l3.ptr_eq(tagged.snapshot(&g)) || l3.tag() != t & mask {
            fail11b("atomic-rc-from-ref", "AtomicRc::from(&Rc) does not hold the same pointer and tag".into());
        }
        // a cell written now carries the current epoch's bits: formatting must not show them
        cell.store(rc.clone().with_tag(t), SeqCst, &g);
        if format!("{:p}", cell) != p0 || format!("{:?}", cell) != p0 {
            fail11b("atomic-rc-format", format!("{{:p}}/{{:?}} of an AtomicRc print {} / {}, the object is at {}", format!("{:p}", cell), format!("{:?}", cell), p0));
        }
        let w = rc1.downgrade().with_tag(t);
        let mut wc = AtomicWeak::<P>::from(&w);
        if format!("{:p}", wc) != p0 || format!("{:?}", wc) != p0 {
            fail11b("atomic-weak-format", format!("{{:p}}/{{:?}} of an AtomicWeak print {} / {}, the object is at {}", format!("{:p}", wc), format!("{:?}", wc), p0));
        }
        if !wc.get_mut().ptr_eq(&w) || wc.get_mut().tag() != t & mask {
            fail11b("atomic-weak-get_mut", "get_mut does not show the stored Weak".into());
        }
        let wl = wc.load(SeqCst, &g);
        let wl2 = wl.clone().with_tag(t2);
        if wl2.tag() != t2 & mask || wl2.is_null() || wl.tag() != t & mask {
            fail11b("weaksnapshot-with_tag", format!("WeakSnapshot::with_tag({:#x}).tag() = {:#x}", t2, wl2.tag()));
        }
        if format!("{:p}", wl2) != p0 || format!("{:?}", wl2) != p0 {
            fail11b("weaksnapshot-format", format!("{{:p}}/{{:?}} of a WeakSnapshot print {} / {}, the object is at {}", format!("{:p}", wl2), format!("{:?}", wl2), p0));
        }
        match wl2.upgrade() {
            Some(sn) if sn.tag() == t2 & mask && sn.as_ref().map(|p| p as *const P as usize) == Some(base) => {}
            _ => fail11b("weaksnapshot-upgrade-tag", "upgrade of a re-tagged WeakSnapshot lost tag or address".into()),
        }
        if !circ::WeakSnapshot::<P>::default().is_null() || !Snapshot::<P>::default().is_null() || !Rc::<P>::default().is_null() || !Weak::<P>::null().is_null() {
            fail11b("pointer-default", "a default pointer is not null".into());
        }
        let mut nrc = Rc::<P>::null().with_tag(t);
        if unsafe { nrc.as_mut() }.is_some() || unsafe { Snapshot::<P>::null().with_tag(t).as_mut() }.is_some() {
            fail11b("null-as_mut", "as_mut of a tagged null is Some".into());
        }
        if format!("{:?}", nrc) != "Null" || format!("{:?}", Snapshot::<P>::null().with_tag(t2)) != "Null" {
            fail11b("null-debug", "Debug of a tagged null does not print Null".into());
        }
        let sc = l3.clone();
        if !sc.ptr_eq(l3) {
            fail11b("snapshot-clone", "Snapshot::clone differs".into());
        }
        drop((c2, c3, wc, w));
    }
    drop((rc, rc1, w1, tagged));
    drop(cell);
    drop(wcell);
    (t > mask) || (e1 % 16 != e2 % 16) || e1 % 16 != 0
}

pub fn exec_c11b(_prop: &str, v: &Value) -> Report {
    let c: ApiTagCase = serde_json::from_value(v.clone()).expect("bad ApiTagCase");
    let mut rep = Report::default();
    rep.nontrivial = match c.align_sel % 3 {
        0 => api_tag(|v| Pay8 { v }, |p| p.v, &c),
        1 => api_tag(|v| Pay16 { v }, |p| p.v, &c),
        _ => api_tag(|v| Pay64 { v }, |p| p.v, &c),
    };
    rep.label(&format!("payload-align{}", [8, 16, 64][(c.align_sel % 3) as usize]));
    rep
}

pub fn exec_c11(prop: &str, v: &Value) -> Report {
    if v.get("items").is_some() {
        exec_c11a(prop, v)
    } else {
        exec_c11b(prop, v)
    }
}

// ------------------------------------------------------------------------------------------------
// C12 (a), (b)

#[derive(Serialize, Deserialize, Clone, Debug)]
pub struct StateCase {
    /// (strong, weak, destructed, weaked, epoch, delta, new epoch)
    pub items: Vec<(u32, u32, bool, bool, u8, u32, u64)>,
}

fn field_val() -> impl Strategy<Value = u32> {
    let max = (1u32 << 29) - 1;
    prop_oneof![
        2 => 0u32..4,
        2 => (0u32..4).prop_map(move |d| max - d),
        3 => 0u32..=max,
        1 => 0u32..70000,
    ]
}

pub fn state_strategy() -> BoxedStrategy<Value> {
    proptest::collection::vec(
        (
            field_val(),
            field_val(),
            any::<bool>(),
            any::<bool>(),
            0u8..16,
            field_val(),
            prop_oneof![0u64..16, 0u64..100000, any::<u64>()],
        ),
        1..24,
    )
    .prop_map(|items| serde_json::to_value(StateCase { items }).unwrap())
    .boxed()
}

fn fail12(what: &str, detail: String) -> ! {
    violation("C12", "O-state", &format!("O-state/{}", what), &detail)
}

pub fn exec_c12a(_prop: &str, v: &Value) -> Report {
    use circ::verif as cv;
    let case: StateCase = serde_json::from_value(v.clone()).expect("bad StateCase");
    let (count, weak_count, sw, ww, ew) = cv::state_consts();
    if sw + ww + ew + 2 != 64 || sw < 28 || ww < 28 || ew != 4 {
        fail12("layout", format!("field widths strong={} weak={} epoch={} (+2 flags) do not tile the 64-bit word", sw, ww, ew));
    }
    let (smax, wmax) = (((1u64 << sw) - 1) as u32, ((1u64 << ww) - 1) as u32);
    let mut rep = Report::default();
    for (s, w, d, k, e, delta, ne) in &case.items {
        let (s, w, d, k, e, delta) = ((*s).min(smax), (*w).min(wmax), *d, *k, *e as u32, *delta);
        // build the word through the updaters, from zero
        let mut raw = 0u64;
        raw = cv::state_add_strong(raw, s);
        raw = cv::state_add_weak(raw, w);
        raw = cv::state_with_destructed(raw, d);
        raw = cv::state_with_weaked(raw, k);
        raw = cv::state_with_epoch(raw, e as usize);
        let want = (s, w, d, k, e);
        if cv::state_fields(raw) != want {
            fail12("roundtrip", format!("fields written {:?}, read back {:?} (word {:#x})", want, cv::state_fields(raw), raw));
        }
        // every updater changes its own field only
        if s as u64 + delta as u64 <= smax as u64 {
            let r = cv::state_add_strong(raw, delta);
            if cv::state_fields(r) != (s + delta, w, d, k, e) {
                fail12("add_strong", format!("{:?} + strong {} gave {:?}", want, delta, cv::state_fields(r)));
            }
            // the fetch_add the library performs on the word
            if delta <= 2 && cv::state_fields(raw.wrapping_add(count * delta as u64)) != (s + delta, w, d, k, e) {
                fail12("fetch_add-strong", format!("{:?} + COUNT*{} gave {:?}", want, delta, cv::state_fields(raw.wrapping_add(count * delta as u64))));
            }
        }
        if delta <= s {
            let r = cv::state_sub_strong(raw, delta);
            if cv::state_fields(r) != (s - delta, w, d, k, e) {
                fail12("sub_strong", format!("{:?} - strong {} gave {:?}", want, delta, cv::state_fields(r)));
            }
        }
        if w as u64 + delta as u64 <= wmax as u64 {
            let r = cv::state_add_weak(raw, delta);
            if cv::state_fields(r) != (s, w + delta, d, k, e) {
                fail12("add_weak", format!("{:?} + weak {} gave {:?}", want, delta, cv::state_fields(r)));
            }
            if cv::state_fields(raw.wrapping_add(weak_count * delta as u64)) != (s, w + delta, d, k, e) {
                fail12("fetch_add-weak", format!("{:?} + WEAK_COUNT*{} gave {:?}", want, delta, cv::state_fields(raw.wrapping_add(weak_count * delta as u64))));
            }
        }
        if w >= 1 && cv::state_fields(raw.wrapping_sub(weak_count)) != (s, w - 1, d, k, e) {
            fail12("fetch_sub-weak", format!("{:?} - WEAK_COUNT gave {:?}", want, cv::state_fields(raw.wrapping_sub(weak_count))));
        }
        for b in [false, true] {
            if cv::state_fields(cv::state_with_destructed(raw, b)) != (s, w, b, k, e) {
                fail12("with_destructed", format!("{:?} with_destructed({}) gave {:?}", want, b, cv::state_fields(cv::state_with_destructed(raw, b))));
            }
            if cv::state_fields(cv::state_with_weaked(raw, b)) != (s, w, d, b, e) {
                fail12("with_weaked", format!("{:?} with_weaked({}) gave {:?}", want, b, cv::state_fields(cv::state_with_weaked(raw, b))));
            }
        }
        let r = cv::state_with_epoch(raw, *ne as usize);
        if cv::state_fields(r) != (s, w, d, k, (*ne % 16) as u32) {
            fail12("with_epoch", format!("{:?} with_epoch({}) gave {:?}", want, ne, cv::state_fields(r)));
        }
        if s == smax || w == wmax || s == 0 || w == 0 {
            rep.nontrivial = true;
        }
        rep.count("words_checked", 1);
    }
    rep.label("state-fields");
    rep
}

#[derive(Serialize, Deserialize, Clone, Debug)]
pub struct ModCase {
    /// (current epoch, ages of up to three stamps)
    pub items: Vec<(u32, Vec<i32>)>,
}

pub fn mod_strategy() -> BoxedStrategy<Value> {
    let epoch = prop_oneof![
        2 => 0u32..40,
        3 => (0u32..700, 0u32..5).prop_map(|(k, d)| (k * 16 + d).saturating_sub(2)),
        2 => 0u32..10000,
    ];
    proptest::collection::vec((epoch, proptest::collection::vec(-1i32..65, 1..4)), 1..32)
        .prop_map(|items| serde_json::to_value(ModCase { items }).unwrap())
        .boxed()
}

/// Exhaustive over current epochs 0..=200 x ages -1..=64 for `le`, as one case per epoch block.
pub fn mod_exhaustive_strategy() -> BoxedStrategy<Value> {
    (0u32..8)
        .prop_map(|blk| {
            let mut items = Vec::new();
            for e in blk * 32..blk * 32 + 32 {
                for a in -1i32..65 {
                    items.push((e, vec![a]));
                }
            }
            serde_json::to_value(ModCase { items }).unwrap()
        })
        .boxed()
}

fn failm(what: &str, detail: String) -> ! {
    violation("C12", "O-modular", &format!("O-modular/{}", what), &detail)
}

pub fn exec_c12b(_prop: &str, v: &Value) -> Report {
    use circ::verif as cv;
    let case: ModCase = serde_json::from_value(v.clone()).expect("bad ModCase");
    let mut rep = Report::default();
    for (curr, ages) in &case.items {
        let curr = *curr as isize;
        let max = curr + 1;
        // stamps that can really exist: written at an epoch in 0..=curr+1
        let ages: Vec<isize> = ages.iter().map(|a| *a as isize).filter(|a| curr - a >= 0).collect();
        if ages.is_empty() {
            continue;
        }
        let stamps: Vec<isize> = ages.iter().map(|a| (curr - a).rem_euclid(16)).collect();
        for (a, st) in ages.iter().zip(stamps.iter()) {
            let old_enough = cv::modular_le(max, *st, curr - 3);
            if old_enough && *a < 3 {
                failm("le-unsafe", format!("current epoch {}, stamp {} (true age {}): classified old enough", curr, st, a));
            }
            if !old_enough && (3..=13).contains(a) {
                failm("le-too-conservative", format!("current epoch {}, stamp {} (true age {} in the unambiguous window 3..=13): classified too recent", curr, st, a));
            }
            rep.count("le_evaluations", 1);
        }
        // merge: the result looks exactly as recent as its most recent-looking input
        let merged = cv::modular_max(max, &stamps);
        if !(0..16).contains(&merged) {
            failm("max-range", format!("merge of {:?} at epoch {} gave {} (not a 4-bit stamp)", stamps, curr, merged));
        }
        if ages.iter().all(|a| (-1..=13).contains(a)) {
            // unambiguous: the newest input is the one with the smallest true age
            let (amin, want) = ages.iter().zip(stamps.iter()).min_by_key(|(a, _)| **a).map(|(a, s)| (*a, *s)).unwrap();
            if merged != want {
                failm("max-not-newest", format!("current epoch {}: merge of stamps {:?} (true ages {:?}) gave {} instead of the newest input {} (age {})", curr, stamps, ages, merged, want, amin));
            }
        }
        let old_enough = cv::modular_le(max, merged, curr - 3);
        if old_enough && ages.iter().any(|a| *a < 3) {
            failm("merge-then-le-unsafe", format!("current epoch {}: stamps {:?} with true ages {:?} merged to {} and classified old enough", curr, stamps, ages, merged));
        }
        if !old_enough && ages.iter().all(|a| (3..=13).contains(a)) {
            failm("merge-then-le-too-conservative", format!("current epoch {}: stamps {:?} with true ages {:?} merged to {} and classified too recent", curr, stamps, ages, merged));
        }
        if curr >= 16 || ages.iter().any(|a| *a >= 14) {
            rep.nontrivial = true;
        }
    }
    rep.label("modular");
    rep
}

pub fn exec_c12(prop: &str, v: &Value) -> Report {
    let first = v.get("items").and_then(|i| i.get(0));
    match first {
        Some(f) if f.as_array().map_or(false, |a| a.len() == 2) => exec_c12b(prop, v),
        Some(_) => exec_c12a(prop, v),
        None => {
            if v.get("age").is_some() {
                crate::seq::exec_c12c(prop, v)
            } else {
                Report::default()
            }
        }
    }
}

// ------------------------------------------------------------------------------------------------
// C19

#[derive(Debug, PartialEq, Eq, PartialOrd, Ord, Hash)]
pub struct V(pub i32);
unsafe impl RcObject for V {
    fn pop_edges(&mut self, _: &mut Vec<Rc<Self>>) {}
}

#[derive(Serialize, Deserialize, Clone, Debug)]
pub struct OrdCase {
    pub start_epoch: u8,
    pub vals: Vec<i32>,
    /// (object index or >= len for null, tag, written through a cell after this many extra rounds)
    pub ptrs: Vec<(u8, u8, u8)>,
}

pub fn ord_strategy() -> BoxedStrategy<Value> {
    (
        0u8..20,
        proptest::collection::vec(prop_oneof![3 => -2i32..3, 1 => any::<i32>()], 1..5),
        proptest::collection::vec((0u8..6, 0u8..8, 0u8..4), 2..7),
    )
        .prop_map(|(start_epoch, vals, ptrs)| {
            serde_json::to_value(OrdCase {
                start_epoch,
                vals,
                ptrs,
            })
            .unwrap()
        })
        .boxed()
}

fn h<T: Hash>(t: &T) -> u64 {
    let mut s = DefaultHasher::new();
    t.hash(&mut s);
    s.finish()
}

fn fail19(what: &str, detail: String) -> ! {
    violation("C19", "O-ord", &format!("O-ord/{}", what), &detail)
}

pub fn exec_c19(_prop: &str, v: &Value) -> Report {
    let c: OrdCase = serde_json::from_value(v.clone()).expect("bad OrdCase");
    for _ in 0..c.start_epoch {
        round();
    }
    let objs: Vec<Rc<V>> = c.vals.iter().map(|v| Rc::new(V(*v))).collect();
    // build the pool of pointers; each remembers (object index | None, tag)
    let mut pool: Vec<(Rc<V>, Option<usize>, usize)> = Vec::new();
    let cell = AtomicRc::<V>::null();
    for (oi, tag, rounds) in &c.ptrs {
        let oi = *oi as usize;
        let tag = *tag as usize;
        let base: Rc<V> = if oi < objs.len() { objs[oi].clone() } else { Rc::null() };
        let p = base.with_tag(tag);
        let p = if *rounds > 0 {
            for _ in 1..*rounds {
                round();
            }
            // pass it through a cell so that it carries the epoch bits of this moment
            let g = cs();
            cell.store(p, SeqCst, &g);
            let s = cell.load(SeqCst, &g);
            let r = s.counted();
            cell.store(Rc::null(), SeqCst, &g);
            r
        } else {
            p
        };
        pool.push((p, if oi < objs.len() { Some(oi) } else { None }, tag & 7));
    }
    let g = cs();
    let mut rep = Report::default();
    let n = pool.len();
    let refv = |i: usize| -> Option<&V> { pool[i].1.map(|oi| objs[oi].as_ref().unwrap()) };
    for i in 0..n {
        for j in 0..n {
            let (a, b) = (&pool[i].0, &pool[j].0);
            let (ra, rb) = (refv(i), refv(j));
            let (sa, sb) = (a.snapshot(&g), b.snapshot(&g));
            let d = || format!("a = {:?} (tag {}), b = {:?} (tag {})", ra, pool[i].2, rb, pool[j].2);
            if (a == b) != (ra == rb) || (sa == sb) != (ra == rb) {
                fail19("eq", format!("== gave {} / {} but the referents compare {}: {}", a == b, sa == sb, ra == rb, d()));
            }
            if a.cmp(b) != ra.cmp(&rb) || sa.cmp(&sb) != ra.cmp(&rb) {
                fail19("cmp", format!("cmp gave {:?} / {:?} but the referents compare {:?}: {}", a.cmp(b), sa.cmp(&sb), ra.cmp(&rb), d()));
            }
            if a.partial_cmp(b) != ra.partial_cmp(&rb) || sa.partial_cmp(&sb) != ra.partial_cmp(&rb) {
                fail19("partial_cmp", format!("partial_cmp disagrees with the referents: {}", d()));
            }
            if h(a) != h(&ra) || h(&sa) != h(&ra) {
                fail19("hash", format!("hash of the pointer differs from the hash of Option<&T> of its referent: {}", d()));
            }
            if a == b && h(a) != h(b) {
                fail19("eq-implies-hash", format!("equal pointers hash differently: {}", d()));
            }
            let same = pool[i].1 == pool[j].1 && pool[i].2 == pool[j].2;
            if a.ptr_eq(b) != same || sa.ptr_eq(sb) != same {
                fail19("ptr_eq", format!("ptr_eq gave {} / {} but identity+tag says {}: {}", a.ptr_eq(b), sa.ptr_eq(sb), same, d()));
            }
            if (a == b) != (b == a) {
                fail19("symmetry", d());
            }
            if a.cmp(b) != b.cmp(a).reverse() {
                fail19("antisymmetry", d());
            }
            if ra.is_none() && rb.is_some() && !(a < b) {
                fail19("null-smallest", d());
            }
            for k in 0..n {
                let cc = &pool[k].0;
                if a == b && b == cc && a != cc {
                    fail19("eq-transitive", d());
                }
                if a <= b && b <= cc && !(a <= cc) {
                    fail19("ord-transitive", d());
                }
            }
            rep.count("pairs", 1);
        }
        if !(pool[i].0 == pool[i].0) {
            fail19("reflexive", format!("{:?}", refv(i)));
        }
    }
    // non-trivial: two distinct objects with equal contents, or same object under different tags /
    // write epochs, or a null among non-nulls
    let mut nt = false;
    for i in 0..n {
        for j in 0..n {
            if i != j {
                if let (Some(x), Some(y)) = (pool[i].1, pool[j].1) {
                    if x != y && c.vals[x] == c.vals[y] {
                        nt = true;
                    }
                    if x == y && (pool[i].2 != pool[j].2 || circ::verif::rc_word(&pool[i].0) >> 60 != circ::verif::rc_word(&pool[j].0) >> 60) {
                        nt = true;
                    }
                }
                if pool[i].1.is_none() != pool[j].1.is_none() {
                    nt = true;
                }
            }
        }
    }
    rep.nontrivial = nt;
    drop(g);
    rep
}
