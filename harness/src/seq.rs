//! Sequential structure checks: C06 (latency independent of length), C07 (no stack overflow),
//! C10 (bulk constructors), C12c (the reclaim decision, end to end).

use std::sync::atomic::{AtomicU64, AtomicUsize, Ordering::SeqCst};
use std::sync::Mutex;

use circ::{cs, AtomicRc, Rc, RcObject, Weak};
use proptest::prelude::*;
use proptest::strategy::BoxedStrategy;
use serde::{Deserialize, Serialize};
use serde_json::Value;

use crate::runner::{violation, Report, Tier};

fn round() {
    let g = cs();
    g.flush();
}
fn epoch() -> usize {
    circ::verif::global_epoch()
}
/// `k` collection rounds by another participant (a helper thread), while the caller does nothing.
fn helper_rounds(k: usize) {
    if k == 0 {
        return;
    }
    std::thread::spawn(move || {
        for _ in 0..k {
            round();
        }
    })
    .join()
    .unwrap();
}

// ------------------------------------------------------------------------------------------------
// light-weight node for big structures

static POPPED: AtomicU64 = AtomicU64::new(0);
static DROPPED: AtomicU64 = AtomicU64::new(0);
static LAST_DESTRUCT_EPOCH: AtomicUsize = AtomicUsize::new(0);
static SEEN: Mutex<Vec<u8>> = Mutex::new(Vec::new());
static WHICH_PROP: Mutex<&'static str> = Mutex::new("C06");

pub struct LNode {
    id: u32,
    edges: [AtomicRc<LNode>; 2],
    keep_edge: bool,
}

unsafe impl RcObject for LNode {
    fn pop_edges(&mut self, out: &mut Vec<Rc<Self>>) {
        POPPED.fetch_add(1, SeqCst);
        if !self.keep_edge {
            out.push(self.edges[0].take());
            out.push(self.edges[1].take());
        }
    }
}
impl Drop for LNode {
    fn drop(&mut self) {
        let mut seen = SEEN.lock().unwrap();
        let i = self.id as usize;
        if i >= seen.len() || seen[i] != 0 {
            let prop = *WHICH_PROP.lock().unwrap();
            violation(prop, "O-once", "O-once/lnode-drop-twice", &format!("node {} destructed twice (or unknown)", i));
        }
        seen[i] = 1;
        drop(seen);
        DROPPED.fetch_add(1, SeqCst);
        LAST_DESTRUCT_EPOCH.store(epoch(), SeqCst);
    }
}

#[derive(Serialize, Deserialize, Clone, Debug)]
pub struct StructCase {
    pub n: u32,
    /// 0 chain, 1 binary tree, 2 comb (spine with one leaf per node), 3 chain leaving edges to Drop
    pub shape: u8,
    pub align: u8,
    /// links written within `band`+1 consecutive epochs
    pub band: u8,
    pub stamped: bool,
    /// rounds between finishing the structure and dropping the head
    pub wait: u8,
    /// epoch advances by another participant before the dropping thread flushes
    pub flush_delay: u8,
    /// externally held node at position hold*n/256 (None = nothing held)
    pub hold: Option<u8>,
    /// C07: stack of the collecting thread in KiB (0 = main thread)
    #[serde(default)]
    pub stack_kib: u32,
    /// additionally hold every node whose id is congruent to `hold_every.1` modulo `hold_every.0`
    /// (e.g. (2, 1) = every leaf of a comb)
    #[serde(default)]
    pub hold_every: Option<(u8, u8)>,
}

/// Builds the structure; returns (head, all nodes' Rc for `hold` selection is done by index walk).
/// Node ids are 0..n; node i's children: chain: i+1; tree: 2i+1, 2i+2; comb: spine i -> i+2 (even
/// ids are spine), leaf i+1.
fn build(c: &StructCase) -> (Rc<LNode>, Vec<Rc<LNode>>, usize) {
    let n = c.n as usize;
    *SEEN.lock().unwrap() = vec![0u8; n];
    let shape = c.shape;
    let children = move |i: usize| -> (Option<usize>, Option<usize>) {
        let some = |j: usize| if j < n { Some(j) } else { None };
        match shape {
            1 => (some(2 * i + 1), some(2 * i + 2)),
            2 => {
                if i % 2 == 0 {
                    (some(i + 2), some(i + 1))
                } else {
                    (None, None)
                }
            }
            // comb whose leaf is handed to the cascade before the spine successor
            4 => {
                if i % 2 == 0 {
                    (some(i + 1), some(i + 2))
                } else {
                    (None, None)
                }
            }
            // spine with a two-node twig per spine node (ids 3k spine, 3k+1 -> 3k+2 twig)
            5 => match i % 3 {
                0 => (some(i + 1), some(i + 3)),
                1 => (some(i + 1), None),
                _ => (None, None),
            },
            _ => (some(i + 1), None),
        }
    };
    let hold_idx = c.hold.map(|h| ((h as usize * n) >> 8).max(1).min(n.saturating_sub(1))).filter(|_| n >= 2);
    let is_held = |i: usize| -> bool {
        if i == 0 {
            return false;
        }
        if Some(i) == hold_idx {
            return true;
        }
        match c.hold_every {
            Some((m, r)) if m >= 2 => i % m as usize == (r % m) as usize,
            _ => false,
        }
    };
    let mut held = Vec::new();
    // build back to front; a node is kept in the table only until its parent has taken it
    let mut nodes: Vec<Option<Rc<LNode>>> = (0..n).map(|_| None).collect();
    let seg = (n / (c.band as usize + 1)).max(1);
    for i in (0..n).rev() {
        if c.band > 0 && i % seg == 0 && i != 0 {
            round();
        }
        let (c0, c1) = children(i);
        let take = |nodes: &mut Vec<Option<Rc<LNode>>>, j: Option<usize>| j.and_then(|j| nodes[j].take());
        let (r0, r1) = (take(&mut nodes, c0), take(&mut nodes, c1));
        let node = if c.stamped {
            let nd = Rc::new(LNode {
                id: i as u32,
                edges: [AtomicRc::null(), AtomicRc::null()],
                keep_edge: c.shape == 3,
            });
            let g = cs();
            if let Some(r) = r0 {
                nd.as_ref().unwrap().edges[0].store(r, SeqCst, &g);
            }
            if let Some(r) = r1 {
                nd.as_ref().unwrap().edges[1].store(r, SeqCst, &g);
            }
            nd
        } else {
            Rc::new(LNode {
                id: i as u32,
                edges: [
                    r0.map(AtomicRc::from).unwrap_or_else(AtomicRc::null),
                    r1.map(AtomicRc::from).unwrap_or_else(AtomicRc::null),
                ],
                keep_edge: c.shape == 3,
            })
        };
        if is_held(i) {
            held.push(node.clone());
        }
        nodes[i] = Some(node);
    }
    let head = nodes[0].take().unwrap();
    // number of nodes reachable from the held nodes
    let mut mark = vec![false; n];
    let mut reach = 0usize;
    let mut stack: Vec<usize> = (1..n).filter(|i| is_held(*i)).collect();
    while let Some(i) = stack.pop() {
        if mark[i] {
            continue;
        }
        mark[i] = true;
        reach += 1;
        let (a, b) = children(i);
        if let Some(a) = a {
            stack.push(a);
        }
        if let Some(b) = b {
            stack.push(b);
        }
    }
    (head, held, reach)
}

fn log_uniform(max: u32) -> impl Strategy<Value = u32> {
    (0.0f64..1.0).prop_map(move |x| ((max as f64).powf(x)).round().max(1.0) as u32)
}

pub fn c06_strategy(t: Tier) -> BoxedStrategy<Value> {
    let maxn = t.pick(20_000, 1_000_000);
    (
        log_uniform(maxn),
        prop_oneof![Just(0u8), Just(1u8), Just(2u8), Just(4u8), Just(5u8)],
        0u8..48,
        // links written within band+1 consecutive epochs: a structure built at once, one built
        // over a few dozen epochs, one that has grown over hundreds of epochs
        prop_oneof![6 => 0u8..3, 2 => 3u8..6, 3 => prop_oneof![Just(9u8), Just(13u8), Just(20u8), Just(40u8), Just(60u8), Just(100u8), Just(180u8), Just(255u8)]],
        any::<bool>(),
        3u8..41,
        0u8..21,
        prop_oneof![2 => Just(None), 1 => any::<u8>().prop_map(Some)],
        prop_oneof![3 => Just(None), 2 => (2u8..6, 0u8..6).prop_map(Some)],
    )
        .prop_map(|(n, shape, align, band, stamped, wait, flush_delay, hold, hold_every)| {
            serde_json::to_value(StructCase {
                n,
                shape,
                align,
                band,
                stamped,
                wait,
                flush_delay,
                hold,
                stack_kib: 0,
                hold_every,
            })
            .unwrap()
        })
        .boxed()
}

pub fn exec_c06(_prop: &str, v: &Value) -> Report {
    let c: StructCase = serde_json::from_value(v.clone()).expect("bad StructCase");
    *WHICH_PROP.lock().unwrap() = "C06";
    for _ in 0..c.align {
        round();
    }
    let n = c.n as u64;
    let (head, held, reach) = build(&c);
    for _ in 0..c.wait {
        round();
    }
    let expect = n - reach as u64;
    drop(head);
    helper_rounds(c.flush_delay as usize);
    let e1 = epoch();
    let segs = (n as usize + 1023) / 1024;
    let bound = 40 + 16 * segs;
    let mut rounds = 0u64;
    while DROPPED.load(SeqCst) < expect {
        if epoch() - e1 > bound + 8 {
            let d = format!(
                "n={} shape={} stamped={} band={} wait={} flush_delay={} align={}: after {} epoch advances since the flush only {} of {} nodes were destructed (bound {} = 40 + 16*ceil(n/1024))",
                c.n, c.shape, c.stamped, c.band, c.wait, c.flush_delay, c.align, epoch() - e1, DROPPED.load(SeqCst), expect, bound
            );
            // (links written in many different epochs are a class of their own: see the open
            // known finding; the class is defined by how the case was built, not by what it did)
            let sig = if c.band > 5 { "O-latency/not-reclaimed-within-bound/links-from->6-epochs" } else { "O-latency/not-reclaimed-within-bound" };
            violation("C06", "O-latency", sig, &d);
        }
        round();
        rounds += 1;
    }
    let delta = LAST_DESTRUCT_EPOCH.load(SeqCst).saturating_sub(e1);
    if expect > 0 && delta > bound {
        let d = format!(
            "n={} shape={}: last destructor ran {} epochs after the flush, bound {}",
            c.n, c.shape, delta, bound
        );
        let sig = if c.band > 5 { "O-latency/not-reclaimed-within-bound/links-from->6-epochs" } else { "O-latency/late" };
        violation("C06", "O-latency", sig, &d);
    }
    // a few more rounds: nothing reachable from the held node may go away
    for _ in 0..8 {
        round();
    }
    if DROPPED.load(SeqCst) != expect || POPPED.load(SeqCst) != expect {
        let d = format!("n={} hold={:?}/{:?}: {} nodes destructed, expected exactly {} (nodes reachable from the externally held node must survive)", c.n, c.hold, c.hold_every, DROPPED.load(SeqCst), expect);
        violation("C06", "O-latency", "O-latency/held-substructure-destructed", &d);
    }
    if !held.is_empty() {
        // walk the held sub-structures: everything must be alive and intact
        let g = cs();
        let mut visited = std::collections::HashSet::new();
        let mut stack: Vec<_> = held.iter().map(|h| h.snapshot(&g)).collect();
        while let Some(s) = stack.pop() {
            let nd = s.as_ref().unwrap();
            if !visited.insert(nd.id) {
                continue;
            }
            if SEEN.lock().unwrap()[nd.id as usize] != 0 {
                violation("C06", "O-latency", "O-latency/held-node-destructed", &format!("node {} below a held node was destructed", nd.id));
            }
            for e in 0..2 {
                let ch = nd.edges[e].load(SeqCst, &g);
                if !ch.is_null() {
                    stack.push(ch);
                }
            }
        }
        if visited.len() != reach {
            violation("C06", "O-latency", "O-latency/held-substructure-broken", &format!("{} nodes reachable from the held nodes, expected {}", visited.len(), reach));
        }
    }
    let mut rep = Report::default();
    rep.nontrivial = c.n >= 64;
    rep.count("nodes", n);
    rep.count("epochs_to_reclaim", delta as u64);
    rep.count("rounds", rounds);
    rep.label(["chain", "tree", "comb", "chain", "comb-leaf-first", "spine-with-twigs"][c.shape as usize % 6]);
    rep.label(if c.band <= 2 { "links-from-1..3-epochs" } else if c.band <= 5 { "links-from-4..6-epochs" } else { "links-from-10..256-epochs" });
    if held.len() == 1 {
        rep.label("one-external-holder");
    } else if held.len() > 1 {
        rep.label("many-external-holders");
    }
    if c.n >= 4096 {
        let per = delta as f64 / segs as f64;
        rep.label(if per <= 4.0 { "epochs/1024nodes<=4" } else if per <= 8.0 { "epochs/1024nodes<=8" } else if per <= 12.0 { "epochs/1024nodes<=12" } else { "epochs/1024nodes>12" });
    } else {
        rep.label(if delta <= 8 { "small:delta<=8" } else if delta <= 16 { "small:delta<=16" } else if delta <= 28 { "small:delta<=28" } else { "small:delta>28" });
    }
    drop(held);
    rep
}

pub fn c07_strategy(t: Tier) -> BoxedStrategy<Value> {
    let maxn = t.pick(300_000, 4_000_000);
    (
        prop_oneof![2 => log_uniform(maxn), 2 => (2048u32..maxn)],
        0u8..6,
        0u8..20,
        any::<bool>(),
        prop_oneof![3 => Just(0u32), 3 => Just(2048u32), 3 => Just(1024u32), 3 => Just(512u32), 1 => Just(384u32), 1 => Just(256u32), 1 => Just(192u32), 1 => Just(128u32), 1 => Just(64u32)],
    )
        .prop_map(|(n, shape, align, stamped, stack_kib)| {
            // a chain whose nodes leave their edges to Drop is reclaimed one node per grace period
            let n = if shape == 3 { n.min(1500) } else { n };
            serde_json::to_value(StructCase {
                n,
                shape,
                align,
                band: 0,
                stamped,
                wait: 4,
                flush_delay: 0,
                hold: None,
                stack_kib,
                hold_every: None,
            })
            .unwrap()
        })
        .boxed()
}

pub fn exec_c07(_prop: &str, v: &Value) -> Report {
    let c: StructCase = serde_json::from_value(v.clone()).expect("bad StructCase");
    *WHICH_PROP.lock().unwrap() = "C07";
    for _ in 0..c.align {
        round();
    }
    let n = c.n as u64;
    let (head, _, _) = build(&c);
    for _ in 0..c.wait {
        round();
    }
    let run = move || {
        drop(head);
        let limit = if c.shape == 3 { 40 + 8 * n } else { 200 + 16 * (n / 1024 + 1) };
        let mut rounds = 0u64;
        while DROPPED.load(SeqCst) < n {
            if rounds > limit {
                let d = format!("n={} shape={}: only {} of {} nodes destructed after {} collection rounds", c.n, c.shape, DROPPED.load(SeqCst), n, rounds);
                violation("C07", "O-complete", "O-complete/not-all-reclaimed", &d);
            }
            round();
            rounds += 1;
        }
        rounds
    };
    let rounds = if c.stack_kib == 0 {
        run()
    } else {
        if c.stack_kib <= 128 {
            crate::runner::crash_context("stack<=128KiB");
        }
        std::thread::Builder::new()
            .stack_size(c.stack_kib as usize * 1024)
            .spawn(run)
            .unwrap()
            .join()
            .unwrap()
    };
    let mut rep = Report::default();
    rep.nontrivial = c.n >= 2048;
    rep.count("nodes", n);
    rep.count("rounds", rounds);
    rep.label(["chain", "tree", "comb", "chain-edges-left-to-Drop", "comb-leaf-first", "spine-with-twigs"][c.shape as usize % 6]);
    rep.label(&format!("stack{}KiB", if c.stack_kib == 0 { 8192 } else { c.stack_kib }));
    rep
}

// ------------------------------------------------------------------------------------------------
// C10: bulk constructors

static B_POPPED: AtomicU64 = AtomicU64::new(0);
static B_DROPPED: AtomicU64 = AtomicU64::new(0);
static B_FREED: AtomicU64 = AtomicU64::new(0);
static B_ADDR: AtomicUsize = AtomicUsize::new(0);

pub struct BNode {
    v: u64,
}
unsafe impl RcObject for BNode {
    fn pop_edges(&mut self, _: &mut Vec<Rc<Self>>) {
        B_POPPED.fetch_add(1, SeqCst);
    }
}
impl Drop for BNode {
    fn drop(&mut self) {
        if self.v != 0xB0DE {
            violation("C10", "O-bulk", "O-bulk/payload-corrupt", "payload corrupted at Drop");
        }
        self.v = 0;
        B_DROPPED.fetch_add(1, SeqCst);
    }
}
fn bulk_event(kind: u32, addr: usize, _aux: usize) {
    // (for new_many::<0> there is no handle to learn the address from: count every dealloc)
    if kind == circ::verif::ev::DEALLOC && (B_ADDR.load(SeqCst) == 0 || addr == B_ADDR.load(SeqCst)) {
        B_FREED.fetch_add(1, SeqCst);
    }
}

#[derive(Serialize, Deserialize, Clone, Debug)]
pub struct BulkCase {
    pub align: u8,
    /// 0 new_many, 1 new_many_iter, 2 weak_many
    pub kind: u8,
    pub n: u8,
    /// iterator: how many are taken before drop/abort
    pub prefix: u8,
    pub abort: bool,
    /// weak_many receiver: 0 fresh, 1 shared (cloned), 2 already weaked, 3 null
    pub receiver: u8,
    /// release order: sequence of selectors into the remaining owners, with rounds in between
    pub order: Vec<(u8, u8)>,
}

pub fn bulk_strategy() -> BoxedStrategy<Value> {
    (
        0u8..20,
        0u8..3,
        prop_oneof![Just(0u8), Just(1), Just(2), Just(3), Just(4), Just(7), Just(16)],
        0u8..41,
        any::<bool>(),
        0u8..4,
        proptest::collection::vec((any::<u8>(), 0u8..4), 0..48),
        0u8..41,
    )
        .prop_map(|(align, kind, n, prefix, abort, receiver, order, count)| {
            serde_json::to_value(BulkCase {
                align,
                kind,
                n: if kind == 1 { count } else { n },
                prefix,
                abort,
                receiver,
                order,
            })
            .unwrap()
        })
        .boxed()
}

fn failb(what: &str, d: String) -> ! {
    violation("C10", "O-bulk", &format!("O-bulk/{}", what), &d)
}

fn new_many_dyn(n: u8) -> Vec<Rc<BNode>> {
    let mk = || BNode { v: 0xB0DE };
    match n {
        0 => Rc::new_many::<0>(mk()).into_iter().collect(),
        1 => Rc::new_many::<1>(mk()).into_iter().collect(),
        2 => Rc::new_many::<2>(mk()).into_iter().collect(),
        3 => Rc::new_many::<3>(mk()).into_iter().collect(),
        4 => Rc::new_many::<4>(mk()).into_iter().collect(),
        7 => Rc::new_many::<7>(mk()).into_iter().collect(),
        _ => Rc::new_many::<16>(mk()).into_iter().collect(),
    }
}
fn weak_many_dyn(r: &Rc<BNode>, n: u8) -> Vec<Weak<BNode>> {
    match n {
        0 => r.weak_many::<0>().into_iter().collect(),
        1 => r.weak_many::<1>().into_iter().collect(),
        2 => r.weak_many::<2>().into_iter().collect(),
        3 => r.weak_many::<3>().into_iter().collect(),
        4 => r.weak_many::<4>().into_iter().collect(),
        7 => r.weak_many::<7>().into_iter().collect(),
        _ => r.weak_many::<16>().into_iter().collect(),
    }
}

enum Owner {
    S(Rc<BNode>),
    W(Weak<BNode>),
}

pub fn exec_c10(prop: &str, v: &Value) -> Report {
    if v.get("threads").is_some() || v.get("exp").is_some() {
        return crate::rcworld::exec(prop, v);
    }
    let c: BulkCase = serde_json::from_value(v.clone()).expect("bad BulkCase");
    circ::verif::set_event_hook(Some(bulk_event));
    for _ in 0..c.align {
        round();
    }
    let mut rep = Report::default();
    let mut owners: Vec<Owner> = Vec::new();
    let n_eff: usize;
    // what must hold right after construction
    match c.kind % 3 {
        0 => {
            let n = match c.n { 0 | 1 | 2 | 3 | 4 | 7 => c.n, _ => 16 };
            // the block address is only observable through a handle; for N = 0 watch every dealloc
            let rcs = new_many_dyn(n);
            n_eff = n as usize;
            if rcs.len() != n as usize {
                failb("new_many-len", format!("new_many::<{}> returned {} pointers", n, rcs.len()));
            }
            if let Some(r0) = rcs.first() {
                B_ADDR.store(circ::verif::rc_word(r0) & !(0xF << 60) & !7, SeqCst);
                let (s, w, d, _, _) = circ::verif::rc_counts(r0).unwrap();
                if s != n as u32 || w != 1 || d {
                    failb("new_many-count", format!("new_many::<{}>: strong count {} weak {} destructed {}", n, s, w, d));
                }
                for r in &rcs {
                    if r.is_null() || !r.ptr_eq(r0) || r.as_ref().map(|b| b.v) != Some(0xB0DE) {
                        failb("new_many-pointers", format!("new_many::<{}> returned a null or different pointer", n));
                    }
                }
            }
            owners.extend(rcs.into_iter().map(Owner::S));
            rep.label(&format!("new_many<{}>", n));
        }
        1 => {
            let count = c.n as usize;
            n_eff = count;
            let mut it = Rc::new_many_iter(BNode { v: 0xB0DE }, count);
            let w = circ::verif::iter_word(&it);
            B_ADDR.store(w & !(0xF << 60) & !7, SeqCst);
            if circ::verif::iter_remain(&it) != count {
                failb("iter-remain", format!("new_many_iter(_, {}) reports {} remaining", count, circ::verif::iter_remain(&it)));
            }
            if count > 0 {
                let (s, wk, d, _, _) = unsafe { circ::verif::counts_at_word::<BNode>(w) }.unwrap();
                if s != count as u32 || wk != 1 || d {
                    failb("iter-count", format!("new_many_iter(_, {}): strong count {} weak {} destructed {}", count, s, wk, d));
                }
            }
            let prefix = (c.prefix as usize).min(count + 2);
            let mut taken = Vec::new();
            for i in 0..prefix {
                match it.next() {
                    Some(r) => {
                        if i >= count {
                            failb("iter-yields-too-many", format!("new_many_iter(_, {}) yielded pointer number {}", count, i + 1));
                        }
                        if r.is_null() || r.as_ref().map(|b| b.v) != Some(0xB0DE) || (i > 0 && !r.ptr_eq(&taken[0])) {
                            failb("iter-pointers", "iterator yielded a null or different pointer".into());
                        }
                        taken.push(r);
                    }
                    None => {
                        if i < count {
                            failb("iter-yields-too-few", format!("new_many_iter(_, {}) stopped after {}", count, i));
                        }
                    }
                }
            }
            // the shares never yielded are released by drop or abort; the object must stay alive
            // while yielded Rcs remain
            if c.abort {
                let g = cs();
                it.abort(&g);
            } else {
                drop(it);
            }
            if let Some(r0) = taken.first() {
                let (s, _, d, _, _) = circ::verif::rc_counts(r0).unwrap();
                if s != taken.len() as u32 || d {
                    failb("iter-remainder", format!("after taking {} of {} and {} the iterator, the strong count is {} (destructed {})", taken.len(), count, if c.abort { "aborting" } else { "dropping" }, s, d));
                }
            }
            owners.extend(taken.into_iter().map(Owner::S));
            rep.label(&format!("iter(count={},prefix={},{})", if count == 0 { "0" } else if count == 1 { "1" } else { ">1" }, if prefix == 0 { "0" } else if prefix >= count { "all" } else { "some" }, if c.abort { "abort" } else { "drop" }));
        }
        _ => {
            let n = match c.n { 0 | 1 | 2 | 3 | 4 | 7 => c.n, _ => 16 };
            n_eff = n as usize;
            let recv = if c.receiver % 4 == 3 { Rc::null() } else { Rc::new(BNode { v: 0xB0DE }) };
            if !recv.is_null() {
                B_ADDR.store(circ::verif::rc_word(&recv) & !(0xF << 60) & !7, SeqCst);
            }
            let mut extra = 0u32;
            match c.receiver % 4 {
                1 => owners.push(Owner::S(recv.clone())),
                2 => {
                    owners.push(Owner::W(recv.downgrade()));
                    extra = 1;
                }
                _ => {}
            }
            let ws = weak_many_dyn(&recv, n);
            if ws.len() != n as usize {
                failb("weak_many-len", format!("weak_many::<{}> returned {} pointers", n, ws.len()));
            }
            let g = cs();
            for w in &ws {
                if recv.is_null() {
                    if !w.is_null() {
                        failb("weak_many-null-receiver", "weak_many on a null Rc returned a non-null Weak".into());
                    }
                } else {
                    if w.is_null() || !w.snapshot(&g).ptr_eq(recv.snapshot(&g).downgrade()) {
                        failb("weak_many-not-receiver", format!("weak_many::<{}> returned a pointer that does not refer to the receiver", n));
                    }
                    match w.upgrade() {
                        Some(r) if r.ptr_eq(&recv) => {}
                        _ => failb("weak_many-upgrade", "a Weak from weak_many does not upgrade to the receiver".into()),
                    }
                }
            }
            drop(g);
            if !recv.is_null() {
                let (s, wk, d, _, _) = circ::verif::rc_counts(&recv).unwrap();
                let want_s = 1 + if c.receiver % 4 == 1 { 1 } else { 0 };
                if wk != 1 + n as u32 + extra || s != want_s || d {
                    failb("weak_many-count", format!("after weak_many::<{}> the weak count is {} (expected {} incl. the implicit share), strong {}", n, wk, 1 + n as u32 + extra, s));
                }
            }
            owners.extend(ws.into_iter().filter(|w| !w.is_null()).map(Owner::W));
            if !recv.is_null() {
                owners.push(Owner::S(recv));
            }
            rep.label(&format!("weak_many<{}>/recv{}", n, c.receiver % 4));
        }
    }
    // release in generated order; alive while any strong owner remains
    let mut step = 0usize;
    let strong_left = |o: &Vec<Owner>| o.iter().filter(|x| matches!(x, Owner::S(_))).count();
    while !owners.is_empty() {
        let (sel, rounds) = c.order.get(step).cloned().unwrap_or((0, 1));
        step += 1;
        let i = (sel as usize * owners.len()) >> 8;
        let o = owners.remove(i);
        drop(o);
        for _ in 0..rounds {
            round();
        }
        if strong_left(&owners) > 0 && (B_DROPPED.load(SeqCst) > 0 || B_POPPED.load(SeqCst) > 0) {
            failb("destructed-while-owned", format!("the object was destructed while {} strong owners remained", strong_left(&owners)));
        }
        if !owners.is_empty() && B_FREED.load(SeqCst) > 0 {
            failb("freed-while-owned", format!("the block was freed while {} owners remained", owners.len()));
        }
        if let Some(Owner::S(r)) = owners.iter().find(|x| matches!(x, Owner::S(_))) {
            if r.as_ref().map(|b| b.v) != Some(0xB0DE) {
                failb("payload-after-release", "payload not intact while strong owners remain".into());
            }
            let (s, _, _, _, _) = circ::verif::rc_counts(r).unwrap();
            if s as usize != strong_left(&owners) {
                failb("count-during-release", format!("strong count {} with {} strong owners left", s, strong_left(&owners)));
            }
        }
    }
    // everything released: destructed exactly once and freed exactly once within the round bound
    let had_object = !(c.kind % 3 == 2 && c.receiver % 4 == 3);
    let watch_any = false;
    let mut rounds = 0;
    while had_object && (B_DROPPED.load(SeqCst) < 1 || (!watch_any && B_FREED.load(SeqCst) < 1)) {
        if rounds > 80 {
            failb(
                if B_DROPPED.load(SeqCst) < 1 { "never-destructed" } else { "never-freed" },
                format!("after the last owner was released and {} collection rounds: destructed {} times, freed {} times (kind {}, n {})", rounds, B_DROPPED.load(SeqCst), B_FREED.load(SeqCst), c.kind % 3, n_eff),
            );
        }
        round();
        rounds += 1;
    }
    for _ in 0..6 {
        round();
    }
    if had_object && (B_DROPPED.load(SeqCst) != 1 || B_POPPED.load(SeqCst) != 1 || (!watch_any && B_FREED.load(SeqCst) != 1)) {
        failb("not-exactly-once", format!("pop_edges {} Drop {} dealloc {}", B_POPPED.load(SeqCst), B_DROPPED.load(SeqCst), B_FREED.load(SeqCst)));
    }
    rep.nontrivial = n_eff >= 2 || n_eff == 0;
    rep.count("release_steps", step as u64);
    rep
}

// ------------------------------------------------------------------------------------------------
// C12 (c): the cascade's immediate-vs-defer decision at a chosen true age

#[derive(Serialize, Deserialize, Clone, Debug)]
pub struct AgeCase {
    pub align: u8,
    /// epoch advances by another participant before the parent's deferred destruction is flushed
    pub age: u8,
    /// re-stamp the child (upgrade a Weak, drop the Rc) after this many of our own rounds
    pub restamp_after: Option<u8>,
    pub stamped_link: bool,
    pub child_stamp: bool,
}

pub fn age_strategy() -> BoxedStrategy<Value> {
    (
        0u8..48,
        0u8..38,
        prop_oneof![2 => Just(None), 3 => (0u8..6).prop_map(Some)],
        any::<bool>(),
        any::<bool>(),
    )
        .prop_map(|(align, age, restamp_after, stamped_link, child_stamp)| {
            serde_json::to_value(AgeCase {
                align,
                age,
                restamp_after,
                stamped_link,
                child_stamp,
            })
            .unwrap()
        })
        .boxed()
}

pub struct PNode {
    child: AtomicRc<PNode>,
}
unsafe impl RcObject for PNode {
    fn pop_edges(&mut self, out: &mut Vec<Rc<Self>>) {
        out.push(self.child.take());
    }
}

static DEC: Mutex<Vec<(u32, usize, usize, usize)>> = Mutex::new(Vec::new());
fn age_event(kind: u32, addr: usize, aux: usize) {
    if kind == circ::verif::ev::DISPOSE || kind == circ::verif::ev::REDEFER {
        DEC.lock().unwrap().push((kind, addr, aux, epoch()));
    }
}

pub fn exec_c12c(_prop: &str, v: &Value) -> Report {
    let c: AgeCase = serde_json::from_value(v.clone()).expect("bad AgeCase");
    circ::verif::set_event_hook(Some(age_event));
    for _ in 0..c.align {
        round();
    }
    // true epochs of the three stamps the decision merges; None = never written (the count word
    // and an `AtomicRc::from` link start with stamp bits 0, i.e. "epoch 0")
    let child = Rc::new(PNode { child: AtomicRc::null() });
    let caddr = circ::verif::rc_word(&child) & !(0xF << 60) & !7;
    let weak = child.downgrade();
    let mut s_child = 0usize;
    if c.child_stamp {
        let extra = child.clone();
        s_child = epoch();
        drop(extra);
    }
    let s_link;
    let parent = if c.stamped_link {
        let p = Rc::new(PNode { child: AtomicRc::null() });
        let g = cs();
        s_link = epoch();
        p.as_ref().unwrap().child.store(child, SeqCst, &g);
        p
    } else {
        s_link = 0;
        Rc::new(PNode { child: AtomicRc::from(child) })
    };
    let s_parent = epoch();
    drop(parent);
    helper_rounds(c.age as usize);
    let mut rounds = 0u8;
    let mut decided = None;
    while decided.is_none() && rounds < 60 {
        if c.restamp_after == Some(rounds) {
            if let Some(r) = weak.upgrade() {
                s_child = epoch();
                drop(r);
            }
        }
        round();
        rounds += 1;
        decided = DEC.lock().unwrap().iter().find(|d| d.1 == caddr && d.2 == 1).cloned();
    }
    let mut rep = Report::default();
    let Some((kind, _, _, at)) = decided else {
        // the child was never evaluated at depth 1 (e.g. the upgrade took it over): nothing to judge
        rep.label("child-not-evaluated-by-cascade");
        drop(weak);
        return rep;
    };
    let ages = [at as isize - s_parent as isize, at as isize - s_link as isize, at as isize - s_child as isize];
    let newest = *ages.iter().min().unwrap();
    let immediate = kind == circ::verif::ev::DISPOSE;
    let d = format!(
        "decision at epoch {}: parent stamped at {}, link at {}, child at {} (true ages {:?}); the child was {}",
        at, s_parent, s_link, s_child, ages, if immediate { "reclaimed immediately" } else { "re-deferred" }
    );
    if immediate && newest < 3 {
        violation("C12", "O-decision", "O-decision/immediate-although-too-recent", &d);
    }
    if !immediate && ages.iter().all(|a| (3..=13).contains(a)) {
        violation("C12", "O-decision", "O-decision/deferred-although-old-enough", &d);
    }
    rep.nontrivial = at >= 16 || ages.iter().any(|a| *a >= 14);
    rep.label(if immediate { "immediate" } else { "re-deferred" });
    rep.label(&format!("newest-age-{}", if newest < 3 { "<3".to_string() } else if newest <= 13 { "3..13".to_string() } else { ">=14".to_string() }));
    rep.count("decisions", 1);
    drop(weak);
    for _ in 0..8 {
        round();
    }
    rep
}
