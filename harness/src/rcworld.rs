//! RcWorld: generated API programs over `Rc`/`AtomicRc`/`Snapshot`/`Weak`/`AtomicWeak`/
//! `WeakSnapshot`/`NewRcIter`/`Guard`, interpreted against the real library and the shadow model.

use std::sync::atomic::Ordering;

use circ::{cs, AtomicRc, AtomicWeak, Guard, NewRcIter, Rc, Snapshot, Weak, WeakSnapshot};
use serde::{Deserialize, Serialize};

use crate::runner::{violation, Report};
use crate::sched::{self, Directive};
use crate::shadow::{self, with, Shared, SnapHold, VNode, CANARY, NROOTS, NWROOTS};

#[derive(Serialize, Deserialize, Clone, Copy, Debug, PartialEq, Eq)]
pub enum K {
    Nop,
    Deref,
    DerefS,
    Advance,
    Pin,
    Unpin,
    New,
    Clone,
    Drop,
    Load,
    Counted,
    Store,
    Swap,
    SwapNull,
    Cas,
    CasWeak,
    CasTag,
    Downgrade,
    Upgrade,
    WDrop,
    WClone,
    WLoad,
    WStore,
    WSwap,
    WCas,
    WCasWeak,
    WCasTag,
    WCounted,
    WUpgrade,
    WSnapshot,
    SnapDowngrade,
    RcSnapshot,
    Finalize,
    NewMany2,
    NewMany3,
    NewIter,
    IterNext,
    IterAbort,
    IterDrop,
    WeakMany2,
    RcTag,
    SnapTag,
    WTag,
    Reactivate,
    ReactivateAfter,
    Flush,
    SnapToWeak,
    SnapToRc,
    WSnapToWeak,
    Quiesce,
    NewChain,
}

pub const ALL_KINDS: &[K] = &[
    K::Nop,
    K::Deref,
    K::DerefS,
    K::Advance,
    K::Pin,
    K::Unpin,
    K::New,
    K::Clone,
    K::Drop,
    K::Load,
    K::Counted,
    K::Store,
    K::Swap,
    K::SwapNull,
    K::Cas,
    K::CasWeak,
    K::CasTag,
    K::Downgrade,
    K::Upgrade,
    K::WDrop,
    K::WClone,
    K::WLoad,
    K::WStore,
    K::WSwap,
    K::WCas,
    K::WCasWeak,
    K::WCasTag,
    K::WCounted,
    K::WUpgrade,
    K::WSnapshot,
    K::SnapDowngrade,
    K::RcSnapshot,
    K::Finalize,
    K::NewMany2,
    K::NewMany3,
    K::NewIter,
    K::IterNext,
    K::IterAbort,
    K::IterDrop,
    K::WeakMany2,
    K::RcTag,
    K::SnapTag,
    K::WTag,
    K::Reactivate,
    K::ReactivateAfter,
    K::Flush,
    K::SnapToWeak,
    K::SnapToRc,
    K::WSnapToWeak,
    K::Quiesce,
    K::NewChain,
];

/// One API call. Operands index whatever is live when the op executes: scaled
/// (`i * len >> 8`, free programs) or exact (`x = true`, templates). An op whose operand cannot be
/// resolved is a counted no-op.
#[derive(Serialize, Deserialize, Clone, Copy, Debug, PartialEq, Eq)]
pub struct Op {
    pub k: K,
    pub a: u8,
    pub b: u8,
    pub c: u8,
    #[serde(default)]
    pub x: bool,
}

#[derive(Serialize, Deserialize, Clone, Debug, PartialEq, Eq)]
pub struct RcCase {
    /// number of collection rounds before the workers start (initial global epoch)
    pub align: u8,
    pub threads: Vec<Vec<Op>>,
    pub sched: Vec<Directive>,
    #[serde(default)]
    pub tmpl: String,
    /// fallback scheduling once the directives are used up: 0 = each remaining thread runs to
    /// completion in index order, q > 0 = round robin with q ops per turn
    #[serde(default)]
    pub rr: u8,
    /// workers exit without flushing their local bag (their pending garbage is handed over by the
    /// participant's finalization at thread exit)
    #[serde(default)]
    pub noflush: bool,
}

pub const MAX_RCS: usize = 6;
pub const MAX_WEAKS: usize = 4;
pub const MAX_SNAPS: usize = 5;
pub const MAX_WSNAPS: usize = 3;
pub const MAX_FRAMES: usize = 2;

struct RcSlot {
    rc: Rc<VNode>,
    obj: Option<usize>,
    uid: u64,
}
struct WSlot {
    w: Weak<VNode>,
    obj: Option<usize>,
}
struct SSlot {
    s: Snapshot<'static, VNode>,
    obj: Option<usize>,
}
struct WSSlot {
    s: WeakSnapshot<'static, VNode>,
    obj: Option<usize>,
}
struct Frame {
    guard: Guard,
    inst: u64,
    snaps: Vec<SSlot>,
    wsnaps: Vec<WSSlot>,
}

pub struct Th {
    tid: usize,
    sh: &'static Shared,
    rcs: Vec<RcSlot>,
    weaks: Vec<WSlot>,
    iter: Option<(NewRcIter<VNode>, usize)>,
    frames: Vec<Frame>,
    next_uid: u64,
    next_inst: u64,
    noops: u64,
    executed: u64,
}

#[derive(Clone, Copy)]
enum CellRef {
    Root(usize),
    /// edge `e` of the node `obj`, reached through a held Rc or Snapshot
    Edge(usize, usize),
}

fn unstatic<'a>(s: Snapshot<'a, VNode>) -> Snapshot<'static, VNode> {
    unsafe { std::mem::transmute(s) }
}
fn wunstatic<'a>(s: WeakSnapshot<'a, VNode>) -> WeakSnapshot<'static, VNode> {
    unsafe { std::mem::transmute(s) }
}

fn load_ord(c: u8) -> Ordering {
    match c % 3 {
        0 => Ordering::SeqCst,
        1 => Ordering::Acquire,
        _ => Ordering::Relaxed,
    }
}
fn store_ord(c: u8) -> Ordering {
    match c % 3 {
        0 => Ordering::SeqCst,
        1 => Ordering::Release,
        _ => Ordering::Relaxed,
    }
}
fn swap_ord(c: u8) -> Ordering {
    match c % 5 {
        0 => Ordering::SeqCst,
        1 => Ordering::AcqRel,
        2 => Ordering::Acquire,
        3 => Ordering::Release,
        _ => Ordering::Relaxed,
    }
}
fn cas_ord(c: u8) -> (Ordering, Ordering) {
    match c % 8 {
        0 => (Ordering::SeqCst, Ordering::SeqCst),
        1 => (Ordering::SeqCst, Ordering::Relaxed),
        2 => (Ordering::AcqRel, Ordering::Acquire),
        3 => (Ordering::AcqRel, Ordering::Relaxed),
        4 => (Ordering::Release, Ordering::Relaxed),
        5 => (Ordering::Acquire, Ordering::Acquire),
        6 => (Ordering::Acquire, Ordering::Relaxed),
        _ => (Ordering::Relaxed, Ordering::Relaxed),
    }
}

fn pick(i: u8, len: usize, exact: bool) -> Option<usize> {
    if len == 0 {
        return None;
    }
    if exact {
        if (i as usize) < len {
            Some(i as usize)
        } else {
            None
        }
    } else {
        Some((i as usize * len) >> 8)
    }
}

impl Th {
    pub fn new(tid: usize, sh: &'static Shared) -> Th {
        Th {
            tid,
            sh,
            rcs: Vec::new(),
            weaks: Vec::new(),
            iter: None,
            frames: Vec::new(),
            next_uid: (tid as u64) << 32,
            next_inst: (tid as u64) << 32,
            noops: 0,
            executed: 0,
        }
    }

    // ---- slot management (shadow first on release, last on acquire) ----

    fn put_rc(&mut self, rc: Rc<VNode>, origin: &'static str) {
        if self.rcs.len() >= MAX_RCS {
            self.drop_rc(0);
        }
        let w = circ::verif::rc_word(&rc);
        let obj = with(|s| {
            let o = s.obj_of_word(w);
            if let Some(o) = o {
                if s.objs[o].popped && !s.tolerate_own {
                    let d = format!(
                        "an Rc to obj{} was handed out by `{}` after the object's destruction had started (popped={} dropped={} freed={}); trace: {}",
                        o, origin, s.objs[o].popped, s.objs[o].dropped, s.objs[o].freed, s.tail(40)
                    );
                    violation("C01", "O-own", &format!("O-own/acquired-after-destruct/{}", origin), &d);
                }
                s.objs[o].rc_owners += 1;
                s.rc_origin.insert(o, origin);
                s.bump("rc_acquired");
                if origin != "new" {
                    s.bump("rc_acquired_not_new");
                }
            }
            o
        });
        self.next_uid += 1;
        self.rcs.push(RcSlot {
            rc,
            obj,
            uid: self.next_uid,
        });
    }
    /// Removes the slot and ends its definite ownership (the caller then consumes the `Rc`).
    fn take_rc(&mut self, i: usize) -> (Rc<VNode>, Option<usize>) {
        let slot = self.rcs.remove(i);
        if let Some(o) = slot.obj {
            with(|s| s.objs[o].rc_owners -= 1);
        }
        (slot.rc, slot.obj)
    }
    fn drop_rc(&mut self, i: usize) {
        let (rc, o) = self.take_rc(i);
        self.note_release(o);
        drop(rc);
    }
    /// Bookkeeping for exact count conservation in sequential programs.
    fn note_release(&mut self, _o: Option<usize>) {}

    fn put_weak(&mut self, w: Weak<VNode>) {
        if self.weaks.len() >= MAX_WEAKS {
            self.drop_weak(0);
        }
        let word = circ::verif::weak_word(&w);
        let obj = with(|s| {
            let o = s.obj_of_word(word);
            if let Some(o) = o {
                s.objs[o].weak_owners += 1;
                s.objs[o].had_weak = true;
                if s.objs[o].dropped {
                    s.objs[o].weak_after_destruct = true;
                }
            }
            o
        });
        self.weaks.push(WSlot { w, obj });
    }
    fn take_weak(&mut self, i: usize) -> (Weak<VNode>, Option<usize>) {
        let slot = self.weaks.remove(i);
        if let Some(o) = slot.obj {
            with(|s| s.objs[o].weak_owners -= 1);
        }
        (slot.w, slot.obj)
    }
    fn drop_weak(&mut self, i: usize) {
        let (w, _) = self.take_weak(i);
        drop(w);
    }
    fn put_snap(&mut self, f: usize, s: Snapshot<'_, VNode>, origin: &'static str) {
        let s = unstatic(s);
        let w = circ::verif::snapshot_word(&s);
        let (tid, inst) = (self.tid, self.frames[f].inst);
        let obj = with(|sh| {
            let o = sh.obj_of_word(w);
            if let Some(o) = o {
                sh.holds.push(SnapHold {
                    thread: tid,
                    inst,
                    obj: o,
                    origin,
                    weak: false,
                });
                sh.bump("snap_holds");
            }
            o
        });
        let fr = &mut self.frames[f];
        if fr.snaps.len() >= MAX_SNAPS {
            // forget the oldest snapshot (Snapshots are Copy; dropping one is not an API event),
            // its holding ends here
            let old = fr.snaps.remove(0);
            if let Some(o) = old.obj {
                with(|sh| {
                    if let Some(p) = sh
                        .holds
                        .iter()
                        .position(|h| h.thread == tid && h.inst == inst && h.obj == o && !h.weak)
                    {
                        sh.holds.remove(p);
                    }
                });
            }
        }
        fr.snaps.push(SSlot { s, obj });
    }
    fn put_wsnap(&mut self, f: usize, s: WeakSnapshot<'_, VNode>) {
        let s = wunstatic(s);
        let w = circ::verif::weak_snapshot_word(&s);
        let (tid, inst) = (self.tid, self.frames[f].inst);
        let obj = with(|sh| {
            let o = sh.obj_of_word(w);
            if let Some(o) = o {
                sh.holds.push(SnapHold {
                    thread: tid,
                    inst,
                    obj: o,
                    origin: "wsnap",
                    weak: true,
                });
                if sh.objs[o].dropped {
                    sh.objs[o].weak_after_destruct = true;
                }
            }
            o
        });
        let fr = &mut self.frames[f];
        if fr.wsnaps.len() >= MAX_WSNAPS {
            let old = fr.wsnaps.remove(0);
            if let Some(o) = old.obj {
                with(|sh| {
                    if let Some(p) = sh
                        .holds
                        .iter()
                        .position(|h| h.thread == tid && h.inst == inst && h.obj == o && h.weak)
                    {
                        sh.holds.remove(p);
                    }
                });
            }
        }
        fr.wsnaps.push(WSSlot { s, obj });
    }
    /// Ends every holding of guard frame `f` (called at the *start* of the op that drops or
    /// reactivates it).
    fn end_holdings(&mut self, f: usize) {
        let (tid, inst) = (self.tid, self.frames[f].inst);
        with(|sh| sh.holds.retain(|h| !(h.thread == tid && h.inst == inst)));
        self.frames[f].snaps.clear();
        self.frames[f].wsnaps.clear();
    }

    // ---- operand resolution ----

    fn pick_frame(&self, i: u8, exact: bool) -> Option<usize> {
        pick(i, self.frames.len(), exact)
    }
    /// (frame, slot) of a snapshot
    fn pick_snap(&self, i: u8, exact: bool) -> Option<(usize, usize)> {
        let mut all = Vec::new();
        for (f, fr) in self.frames.iter().enumerate() {
            for j in 0..fr.snaps.len() {
                all.push((f, j));
            }
        }
        if exact {
            // exact: frame = i / 8, slot = i % 8
            let (f, j) = ((i / 8) as usize, (i % 8) as usize);
            if f < self.frames.len() && j < self.frames[f].snaps.len() {
                Some((f, j))
            } else {
                None
            }
        } else {
            pick(i, all.len(), false).map(|k| all[k])
        }
    }
    fn pick_wsnap(&self, i: u8, exact: bool) -> Option<(usize, usize)> {
        let mut all = Vec::new();
        for (f, fr) in self.frames.iter().enumerate() {
            for j in 0..fr.wsnaps.len() {
                all.push((f, j));
            }
        }
        if exact {
            let (f, j) = ((i / 8) as usize, (i % 8) as usize);
            if f < self.frames.len() && j < self.frames[f].wsnaps.len() {
                Some((f, j))
            } else {
                None
            }
        } else {
            pick(i, all.len(), false).map(|k| all[k])
        }
    }
    /// Holders through which a node's cells can be reached: obj ids behind non-null Rc slots and
    /// non-null snapshots.
    fn holders(&self) -> Vec<usize> {
        let mut v = Vec::new();
        for r in &self.rcs {
            if let Some(o) = r.obj {
                v.push(o);
            }
        }
        for fr in &self.frames {
            for s in &fr.snaps {
                if let Some(o) = s.obj {
                    v.push(o);
                }
            }
        }
        v
    }
    /// exact encoding: 0..NROOTS = roots; 16 + 2*k + e = edge e of the k-th holder
    /// (Rc slots first, then snapshots frame by frame).
    fn pick_cell(&self, i: u8, exact: bool) -> Option<CellRef> {
        let hs = self.holders();
        if exact {
            let i = i as usize;
            if i < NROOTS {
                return Some(CellRef::Root(i));
            }
            if i >= 16 {
                let (k, e) = ((i - 16) / 2, (i - 16) % 2);
                if k < hs.len() {
                    return Some(CellRef::Edge(hs[k], e));
                }
            }
            None
        } else {
            let n = NROOTS + 2 * hs.len();
            let k = (i as usize * n) >> 8;
            if k < NROOTS {
                Some(CellRef::Root(k))
            } else {
                Some(CellRef::Edge(hs[(k - NROOTS) / 2], (k - NROOTS) % 2))
            }
        }
    }
    fn cell(&self, c: CellRef) -> &'static AtomicRc<VNode> {
        match c {
            CellRef::Root(i) => &self.sh.roots[i],
            CellRef::Edge(o, e) => {
                let node = with(|s| s.objs[o].node);
                unsafe { &(*(node as *const VNode)).edges[e] }
            }
        }
    }
    fn cell_name(c: CellRef) -> String {
        match c {
            CellRef::Root(i) => format!("root{}", i),
            CellRef::Edge(o, e) => format!("obj{}.e{}", o, e),
        }
    }
    /// weak cells: exact 0..NWROOTS = wroots; 16 + k = wedge of k-th holder
    fn pick_wcell(&self, i: u8, exact: bool) -> Option<(String, &'static AtomicWeak<VNode>)> {
        let hs = self.holders();
        let k = if exact {
            let i = i as usize;
            if i < NWROOTS {
                i
            } else if i >= 16 && i - 16 < hs.len() {
                NWROOTS + i - 16
            } else {
                return None;
            }
        } else {
            (i as usize * (NWROOTS + hs.len())) >> 8
        };
        if k < NWROOTS {
            Some((format!("wroot{}", k), &self.sh.wroots[k]))
        } else {
            let o = hs[k - NWROOTS];
            let node = with(|s| s.objs[o].node);
            Some((format!("obj{}.wedge", o), unsafe {
                &(*(node as *const VNode)).wedge
            }))
        }
    }
    /// may `y` be linked from cell `c` (strong edges only point from lower to higher rank)?
    fn rank_ok(&self, c: CellRef, y: Option<usize>) -> bool {
        match (c, y) {
            (CellRef::Root(_), _) => true,
            (_, None) => true,
            (CellRef::Edge(n, _), Some(y)) => with(|s| s.objs[n].rank < s.objs[y].rank),
        }
    }

    fn check_payload(&self, what: &str, node: &VNode, obj: usize) {
        if with(|s| s.compromised.contains(&obj)) {
            return;
        }
        let (id, val, canary) = (node.id, node.val, node.canary);
        with(|s| {
            let o = &s.objs[obj];
            if id as usize != obj || val != o.val || canary != CANARY ^ obj as u64 || o.dropped {
                let prop = if what == "DerefS" { "C02" } else { "C01" };
                let d = format!(
                    "{} read (id={}, val={:#x}, canary={:#x}) but the shadow object obj{} has val={:#x} dropped={}; trace: {}",
                    what, id, val, canary, obj, o.val, o.dropped, s.tail(40)
                );
                violation(prop, "O-deref", &format!("O-deref/{}", what), &d);
            }
            s.bump("derefs");
        })
    }

    fn new_node(&mut self, op: Op) -> VNode {
        // edges from clones of Rc slots (unstamped links via AtomicRc::from), subject to ranks
        let mut targets: Vec<Option<usize>> = vec![None, None];
        let mut rank = 500_000 + (op.b as u32 % 64) * 4096;
        let mut picks = [None, None];
        if op.c & 4 != 0 {
            picks[0] = pick(op.a, self.rcs.len(), op.x);
        }
        if op.c & 8 != 0 {
            picks[1] = pick(op.b, self.rcs.len(), op.x);
        }
        for e in 0..2 {
            if let Some(i) = picks[e] {
                if let Some(o) = self.rcs[i].obj {
                    targets[e] = Some(i);
                    let r = with(|s| s.objs[o].rank);
                    rank = rank.min(r.saturating_sub(1));
                }
            }
        }
        let id = with(|s| s.reserve()) as u32;
        let val = 0x1000_0000u64 * (op.a as u64 + 1) + op.b as u64 * 131 + id as u64;
        let mk = |t: Option<usize>, me: &Th| match t {
            Some(i) => AtomicRc::from(me.rcs[i].rc.clone()),
            None => AtomicRc::null(),
        };
        let e0 = mk(targets[0], self);
        let e1 = mk(targets[1], self);
        let wedge = if op.c & 16 != 0 {
            match pick(op.b, self.rcs.len(), op.x) {
                Some(i) => AtomicWeak::from(&self.rcs[i].rc),
                None => AtomicWeak::null(),
            }
        } else {
            AtomicWeak::null()
        };
        VNode {
            id,
            rank,
            val,
            canary: CANARY ^ id as u64,
            edges: [e0, e1],
            wedge,
            pop_mask: if op.c & 32 != 0 { op.c & 3 } else { 3 },
            // one node in four (of those created with flag 64) uses the API in its destructor
            dact: if op.c & 64 != 0 && op.c & 128 != 0 { 1 + (op.a % 255) } else { 0 },
        }
    }
    fn register(&mut self, rc_word: usize, node: *const VNode) -> usize {
        let (rank, val, id) = unsafe { ((*node).rank, (*node).val, (*node).id as usize) };
        with(|s| {
            let id = s.register(id, rc_word, node, rank, val);
            // weak edges initialised at construction
            s.bump("objects");
            id
        })
    }

    // ---- the interpreter ----

    pub fn exec(&mut self, op: Op) {
        sched::op_begin();
        let done = self.exec_inner(op);
        if done {
            self.executed += 1;
            with(|s| {
                s.bump("ops_executed");
            });
        } else {
            self.noops += 1;
            with(|s| s.bump("ops_noop"));
        }
        sched::op_done();
    }

    fn log(&self, s: String) {
        let t = self.tid;
        with(|sh| sh.log(format!("t{}:{}", t, s)));
    }

    fn exec_inner(&mut self, op: Op) -> bool {
        let x = op.x;
        match op.k {
            K::Nop => true,
            K::Pin => {
                if self.frames.len() >= MAX_FRAMES {
                    return false;
                }
                self.log("pin".into());
                let guard = cs();
                self.next_inst += 1;
                self.frames.push(Frame {
                    guard,
                    inst: self.next_inst,
                    snaps: Vec::new(),
                    wsnaps: Vec::new(),
                });
                true
            }
            K::Unpin => {
                let Some(f) = self.pick_frame(op.a, x) else { return false };
                self.log(format!("unpin(g{})", f));
                self.end_holdings(f);
                let fr = self.frames.remove(f);
                drop(fr);
                true
            }
            K::Reactivate => {
                let Some(f) = self.pick_frame(op.a, x) else { return false };
                self.log(format!("reactivate(g{})", f));
                self.end_holdings(f);
                self.next_inst += 1;
                self.frames[f].inst = self.next_inst;
                self.frames[f].guard.reactivate();
                true
            }
            K::ReactivateAfter => {
                let Some(f) = self.pick_frame(op.a, x) else { return false };
                self.log(format!("reactivate_after(g{},{})", f, op.b % 4));
                self.end_holdings(f);
                self.next_inst += 1;
                self.frames[f].inst = self.next_inst;
                let k = op.b % 4;
                self.frames[f].guard.reactivate_after(|| {
                    for _ in 0..k {
                        let g = cs();
                        g.flush();
                    }
                });
                true
            }
            K::Flush => {
                let Some(f) = self.pick_frame(op.a, x) else { return false };
                self.log(format!("flush(g{})", f));
                self.frames[f].guard.flush();
                true
            }
            K::Advance => {
                let k = if x { op.a as usize } else { (op.a % 8) as usize };
                self.log(format!("advance({})", k));
                let e0 = circ::verif::global_epoch();
                for _ in 0..k {
                    let g = cs();
                    g.flush();
                }
                let e1 = circ::verif::global_epoch();
                let me = self.tid;
                with(|s| {
                    s.add("epochs_advanced_by_ops", (e1 - e0) as u64);
                    if k > 0 {
                        s.note_protection(me);
                    }
                });
                true
            }
            K::Quiesce => {
                // leave every critical section, then run collection rounds
                let k = 1 + (op.a % 6) as usize;
                self.log(format!("quiesce({})", k));
                while !self.frames.is_empty() {
                    let f = self.frames.len() - 1;
                    self.end_holdings(f);
                    let fr = self.frames.pop().unwrap();
                    drop(fr);
                }
                let e0 = circ::verif::global_epoch();
                for _ in 0..k {
                    let g = cs();
                    g.flush();
                }
                let e1 = circ::verif::global_epoch();
                let me = self.tid;
                with(|s| {
                    s.add("epochs_advanced_by_ops", (e1 - e0) as u64);
                    s.note_protection(me);
                });
                true
            }
            K::New => {
                let node = self.new_node(op);
                let desc = format!("new(obj{})", node.id);
                let rc = Rc::new(node);
                let p = rc.as_ref().unwrap() as *const VNode;
                self.register(circ::verif::rc_word(&rc), p);
                self.log(desc);
                self.put_rc(rc, "new");
                true
            }
            K::NewChain => {
                // a chain of 2*(a+1) fresh nodes linked through edge 0 (unstamped links), the head
                // lands in an Rc slot; long chains make a disposal span several re-pins
                // (b adds 256 nodes each; c > 0 additionally yields a Weak to the node that is
                // 1024 + c - 4 links away from the head: the neighbourhood of the recursion cap)
                let len = 2 * (op.a as usize + 1) + 256 * op.b as usize;
                let weak_at = if op.c > 0 { Some((1020 + op.c as usize).min(len - 1)) } else { None };
                let mut kept_weak = None;
                let mut next: Option<Rc<VNode>> = None;
                let mut next_rank = 900_000u32;
                let mut head_id = 0;
                for built in 0..len {
                    let id = with(|s| s.reserve()) as u32;
                    let node = VNode {
                        id,
                        rank: next_rank - 1,
                        val: 0x7000_0000u64 + id as u64,
                        canary: CANARY ^ id as u64,
                        edges: [next.take().map(AtomicRc::from).unwrap_or_else(AtomicRc::null), AtomicRc::null()],
                        wedge: AtomicWeak::null(),
                        pop_mask: 3,
                        dact: 0,
                    };
                    next_rank -= 1;
                    let rc = Rc::new(node);
                    let p = rc.as_ref().unwrap() as *const VNode;
                    self.register(circ::verif::rc_word(&rc), p);
                    head_id = id;
                    // nodes are built tail first: the one built as number `built` ends up
                    // len - 1 - built links away from the head
                    if weak_at == Some(len - 1 - built) {
                        kept_weak = Some(rc.downgrade());
                    }
                    next = Some(rc);
                }
                self.log(format!("new_chain(head obj{}, {} nodes)", head_id, len));
                self.put_rc(next.unwrap(), "new");
                if let Some(w) = kept_weak {
                    self.put_weak(w);
                }
                true
            }
            K::NewMany2 | K::NewMany3 => {
                let node = self.new_node(Op { c: op.c & !(4 | 8), ..op });
                let id = node.id;
                if op.k == K::NewMany2 {
                    let [r0, r1] = Rc::new_many::<2>(node);
                    let p = r0.as_ref().unwrap() as *const VNode;
                    self.register(circ::verif::rc_word(&r0), p);
                    self.put_rc(r0, "new_many");
                    self.put_rc(r1, "new_many");
                } else {
                    let [r0, r1, r2] = Rc::new_many::<3>(node);
                    let p = r0.as_ref().unwrap() as *const VNode;
                    self.register(circ::verif::rc_word(&r0), p);
                    self.put_rc(r0, "new_many");
                    self.put_rc(r1, "new_many");
                    self.put_rc(r2, "new_many");
                }
                self.log(format!("new_many(obj{})", id));
                true
            }
            K::NewIter => {
                if self.iter.is_some() {
                    return false;
                }
                let count = 1 + (op.a % 5) as usize;
                let node = self.new_node(Op { c: op.c & !(4 | 8), ..op });
                let id = node.id as usize;
                let it = Rc::new_many_iter(node, count);
                let w = circ::verif::iter_word(&it);
                // Safety: the iterator owns `count >= 1` shares, the object is alive
                let nodep = unsafe { circ::verif::payload_at_word::<VNode>(w) };
                self.register(w, nodep);
                with(|s| s.objs[id].iter_shares = count as u32);
                self.log(format!("new_many_iter(obj{},{})", id, count));
                self.iter = Some((it, id));
                true
            }
            K::IterNext => {
                let Some((it, id)) = self.iter.as_mut() else { return false };
                let id = *id;
                if circ::verif::iter_remain(it) == 0 {
                    return false;
                }
                // the share moves from the iterator to the yielded Rc
                with(|s| s.objs[id].iter_shares -= 1);
                let rc = it.next().unwrap();
                self.log(format!("iter_next(obj{})", id));
                self.put_rc(rc, "iter_next");
                true
            }
            K::IterAbort => {
                if self.iter.is_none() {
                    return false;
                }
                let Some(f) = self.pick_frame(op.a, x) else { return false };
                let (it, id) = self.iter.take().unwrap();
                with(|s| s.objs[id].iter_shares = 0);
                self.log(format!("iter_abort(obj{})", id));
                it.abort(&self.frames[f].guard);
                true
            }
            K::IterDrop => {
                let Some((it, id)) = self.iter.take() else { return false };
                with(|s| s.objs[id].iter_shares = 0);
                self.log(format!("iter_drop(obj{})", id));
                drop(it);
                true
            }
            K::Clone => {
                let Some(i) = pick(op.a, self.rcs.len(), x) else { return false };
                self.log(format!("clone({:?})", self.rcs[i].obj));
                let rc = self.rcs[i].rc.clone();
                self.put_rc(rc, "clone");
                true
            }
            K::Drop => {
                let Some(i) = pick(op.a, self.rcs.len(), x) else { return false };
                self.log(format!("drop({:?})", self.rcs[i].obj));
                self.drop_rc(i);
                true
            }
            K::Finalize => {
                let Some(i) = pick(op.a, self.rcs.len(), x) else { return false };
                let Some(f) = self.pick_frame(op.b, x) else { return false };
                self.log(format!("finalize({:?})", self.rcs[i].obj));
                let (rc, _) = self.take_rc(i);
                rc.finalize(&self.frames[f].guard);
                true
            }
            K::Deref => {
                let Some(i) = pick(op.a, self.rcs.len(), x) else { return false };
                match (self.rcs[i].rc.as_ref(), self.rcs[i].obj) {
                    (Some(n), Some(o)) => self.check_payload("Deref", n, o),
                    (None, None) => {}
                    _ => violation("C11", "O-null", "O-null/rc", "as_ref()/null mismatch on Rc"),
                }
                true
            }
            K::DerefS => {
                let Some((f, j)) = self.pick_snap(op.a, x) else { return false };
                let s = &self.frames[f].snaps[j];
                match (s.s.as_ref(), s.obj) {
                    (Some(n), Some(o)) => self.check_payload("DerefS", n, o),
                    (None, None) => {}
                    _ => violation("C11", "O-null", "O-null/snap", "as_ref()/null mismatch on Snapshot"),
                }
                true
            }
            K::RcTag => {
                let Some(i) = pick(op.a, self.rcs.len(), x) else { return false };
                let t = op.b as usize;
                let slot = self.rcs.remove(i);
                let w0 = circ::verif::rc_word(&slot.rc);
                let rc = slot.rc.with_tag(t);
                if rc.tag() != t & 7 || shadow::addr_of_word(circ::verif::rc_word(&rc)) != shadow::addr_of_word(w0) {
                    violation("C11", "O-tag", "O-tag/rc", &format!("with_tag({}) on {:#x} gave {:#x}", t, w0, circ::verif::rc_word(&rc)));
                }
                self.rcs.insert(i, RcSlot { rc, obj: slot.obj, uid: slot.uid });
                true
            }
            K::SnapTag => {
                let Some((f, j)) = self.pick_snap(op.a, x) else { return false };
                let t = op.b as usize;
                let s = self.frames[f].snaps[j].s;
                let s2 = s.with_tag(t);
                if s2.tag() != t & 7 || s2.is_null() != s.is_null() {
                    violation("C11", "O-tag", "O-tag/snap", "Snapshot::with_tag corrupted the pointer");
                }
                self.frames[f].snaps[j].s = s2;
                true
            }
            K::WTag => {
                let Some(i) = pick(op.a, self.weaks.len(), x) else { return false };
                let t = op.b as usize;
                let slot = self.weaks.remove(i);
                let w = slot.w.with_tag(t);
                if w.tag() != t & 7 {
                    violation("C11", "O-tag", "O-tag/weak", "Weak::with_tag lost the tag");
                }
                self.weaks.insert(i, WSlot { w, obj: slot.obj });
                true
            }
            K::RcSnapshot => {
                let Some(i) = pick(op.a, self.rcs.len(), x) else { return false };
                let Some(f) = self.pick_frame(op.b, x) else { return false };
                let s = unstatic(self.rcs[i].rc.snapshot(&self.frames[f].guard));
                self.log(format!("rc_snapshot({:?})", self.rcs[i].obj));
                self.put_snap(f, s, "rc_snapshot");
                true
            }
            K::Load => {
                let Some(c) = self.pick_cell(op.a, x) else { return false };
                let Some(f) = self.pick_frame(op.b, x) else { return false };
                let cell = self.cell(c);
                let (before, o0) = (circ::verif::atomic_rc_peek(cell), sched::steps_by_others(self.tid));
                let s = unstatic(cell.load(load_ord(op.c), &self.frames[f].guard));
                cell_rw_check("C08", "AtomicRc::load", before, circ::verif::atomic_rc_peek(cell), None, Some(circ::verif::snapshot_word(&s)), sched::steps_by_others(self.tid) == o0);
                let o = with(|sh| sh.obj_of_word(circ::verif::snapshot_word(&s)));
                self.log(format!("load({})={:?}", Self::cell_name(c), o));
                self.put_snap(f, s, "load");
                true
            }
            K::Counted | K::SnapToRc => {
                let Some((f, j)) = self.pick_snap(op.a, x) else { return false };
                let s = self.frames[f].snaps[j].s;
                self.log(format!("counted({:?})", self.frames[f].snaps[j].obj));
                let rc = if op.k == K::Counted { s.counted() } else { Rc::from(s) };
                self.put_rc(rc, "counted");
                true
            }
            K::SnapToWeak => {
                let Some((f, j)) = self.pick_snap(op.a, x) else { return false };
                let s = self.frames[f].snaps[j].s;
                let w = Weak::from(s);
                self.put_weak(w);
                true
            }
            K::SnapDowngrade => {
                let Some((f, j)) = self.pick_snap(op.a, x) else { return false };
                let s = self.frames[f].snaps[j].s;
                let ws = if op.c & 1 == 0 { s.downgrade() } else { WeakSnapshot::from(s) };
                self.put_wsnap(f, ws);
                true
            }
            K::Store => {
                let Some(c) = self.pick_cell(op.a, x) else { return false };
                let Some(f) = self.pick_frame(op.c, x) else { return false };
                let (rc, o) = match pick(op.b, self.rcs.len() + 1, x) {
                    None => return false,
                    Some(i) if i == self.rcs.len() => (Rc::null(), None),
                    Some(i) => {
                        if !self.rank_ok(c, self.rcs[i].obj) {
                            return false;
                        }
                        self.take_rc(i)
                    }
                };
                self.log(format!("store({},{:?})", Self::cell_name(c), o));
                {
                    let cell = self.cell(c);
                    let (before, o0, nw) = (circ::verif::atomic_rc_peek(cell), sched::steps_by_others(self.tid), circ::verif::rc_word(&rc));
                    cell.store(rc, store_ord(op.c), &self.frames[f].guard);
                    cell_rw_check("C08", "AtomicRc::store", before, circ::verif::atomic_rc_peek(cell), Some(nw), None, sched::steps_by_others(self.tid) == o0);
                }
                with(|s| s.bump("cell_writes"));
                true
            }
            K::Swap | K::SwapNull => {
                let Some(c) = self.pick_cell(op.a, x) else { return false };
                let (rc, o) = if op.k == K::SwapNull {
                    (Rc::null(), None)
                } else {
                    match pick(op.b, self.rcs.len(), x) {
                        None => return false,
                        Some(i) => {
                            if !self.rank_ok(c, self.rcs[i].obj) {
                                return false;
                            }
                            self.take_rc(i)
                        }
                    }
                };
                let old = {
                    let cell = self.cell(c);
                    let (before, o0, nw) = (circ::verif::atomic_rc_peek(cell), sched::steps_by_others(self.tid), circ::verif::rc_word(&rc));
                    let old = cell.swap(rc, swap_ord(op.c));
                    cell_rw_check("C08", "AtomicRc::swap", before, circ::verif::atomic_rc_peek(cell), Some(nw), Some(circ::verif::rc_word(&old)), sched::steps_by_others(self.tid) == o0);
                    old
                };
                let oo = with(|s| {
                    s.bump("cell_writes");
                    s.obj_of_word(circ::verif::rc_word(&old))
                });
                self.log(format!("swap({},{:?})={:?}", Self::cell_name(c), o, oo));
                self.put_rc(old, "swap");
                true
            }
            K::Cas | K::CasWeak => self.do_cas(op),
            K::CasTag => {
                let Some(c) = self.pick_cell(op.a, x) else { return false };
                let Some((f, j)) = self.pick_snap(op.b, x) else { return false };
                let exp = self.frames[f].snaps[j].s;
                let eo = self.frames[f].snaps[j].obj;
                let tag = (op.c >> 3) as usize;
                let (so, fo) = cas_ord(op.c);
                let cell = self.cell(c);
                {
                    let (cw, ew) = (circ::verif::atomic_rc_peek(cell), circ::verif::snapshot_word(&exp));
                    if cw != ew && (cw & !(0xF << 60)) == (ew & !(0xF << 60)) {
                        with(|s| s.bump("cas_expected_differs_in_epoch_bits_only"));
                    }
                }
                let guard: &Guard = unsafe { &*(&self.frames[f].guard as *const Guard) };
                let (before, ew) = (circ::verif::atomic_rc_peek(cell), circ::verif::snapshot_word(&exp));
                let others0 = sched::steps_by_others(self.tid);
                let res = cell.compare_exchange_tag(exp, tag, so, fo, guard);
                let undisturbed = sched::steps_by_others(self.tid) == others0;
                let after = circ::verif::atomic_rc_peek(cell);
                cell_spec_check(
                    "C08",
                    "AtomicRc::compare_exchange_tag",
                    before,
                    after,
                    ew,
                    (ew & !7usize) | (tag & 7),
                    res.is_ok(),
                    true,
                    undisturbed,
                    res.as_ref().ok().map(|p| circ::verif::snapshot_word(p)),
                    res.as_ref().err().map(|e| circ::verif::snapshot_word(&e.current)),
                );
                match res {
                    Ok(s) => {
                        let s = unstatic(s);
                        self.log(format!("cas_tag({},{:?},{})=ok", Self::cell_name(c), eo, tag));
                        with(|sh| sh.bump("cas_ok"));
                        self.put_snap(f, s, "cas_tag_ok");
                    }
                    Err(e) => {
                        let cur = unstatic(e.current);
                        if cur.ptr_eq(exp) {
                            violation("C08", "O-cas", "O-cas/tag-fail-but-equal", "compare_exchange_tag failed although current ptr_eq expected");
                        }
                        self.log(format!("cas_tag({},{:?},{})=fail", Self::cell_name(c), eo, tag));
                        with(|sh| sh.bump("cas_fail"));
                        self.put_snap(f, cur, "cas_current");
                    }
                }
                true
            }
            K::Downgrade => {
                let Some(i) = pick(op.a, self.rcs.len(), x) else { return false };
                let w = self.rcs[i].rc.downgrade();
                self.log(format!("downgrade({:?})", self.rcs[i].obj));
                self.put_weak(w);
                true
            }
            K::WeakMany2 => {
                let Some(i) = pick(op.a, self.rcs.len(), x) else { return false };
                let ws: [Weak<VNode>; 2] = self.rcs[i].rc.weak_many::<2>();
                let ro = self.rcs[i].obj;
                let rcw = circ::verif::rc_word(&self.rcs[i].rc);
                for w in ws.iter() {
                    let ww = circ::verif::weak_word(w);
                    if shadow::addr_of_word(ww) != shadow::addr_of_word(rcw) {
                        let d = format!("weak_many on obj{:?} returned a pointer to {:#x} instead of the receiver {:#x}", ro, shadow::addr_of_word(ww), shadow::addr_of_word(rcw));
                        violation("C10", "O-bulk", "O-bulk/weak_many-not-receiver", &d);
                    }
                }
                self.log(format!("weak_many2({:?})", ro));
                let [w0, w1] = ws;
                self.put_weak(w0);
                self.put_weak(w1);
                true
            }
            K::Upgrade => self.do_upgrade(op),
            K::WUpgrade => self.do_wupgrade(op),
            K::WDrop => {
                let Some(i) = pick(op.a, self.weaks.len(), x) else { return false };
                self.log(format!("wdrop({:?})", self.weaks[i].obj));
                self.drop_weak(i);
                true
            }
            K::WClone => {
                let Some(i) = pick(op.a, self.weaks.len(), x) else { return false };
                self.log(format!("wclone({:?})", self.weaks[i].obj));
                let w = self.weaks[i].w.clone();
                self.put_weak(w);
                true
            }
            K::WSnapshot => {
                let Some(i) = pick(op.a, self.weaks.len(), x) else { return false };
                let Some(f) = self.pick_frame(op.b, x) else { return false };
                let s = wunstatic(self.weaks[i].w.snapshot(&self.frames[f].guard));
                self.put_wsnap(f, s);
                true
            }
            K::WLoad => {
                let Some((name, cell)) = self.pick_wcell(op.a, x) else { return false };
                let Some(f) = self.pick_frame(op.b, x) else { return false };
                let (before, o0) = (circ::verif::atomic_weak_peek(cell), sched::steps_by_others(self.tid));
                let s = wunstatic(cell.load(load_ord(op.c), &self.frames[f].guard));
                cell_rw_check("C09", "AtomicWeak::load", before, circ::verif::atomic_weak_peek(cell), None, Some(circ::verif::weak_snapshot_word(&s)), sched::steps_by_others(self.tid) == o0);
                let o = with(|sh| sh.obj_of_word(circ::verif::weak_snapshot_word(&s)));
                self.log(format!("wload({})={:?}", name, o));
                self.put_wsnap(f, s);
                true
            }
            K::WCounted | K::WSnapToWeak => {
                let Some((f, j)) = self.pick_wsnap(op.a, x) else { return false };
                let s = self.frames[f].wsnaps[j].s;
                self.log(format!("wcounted({:?})", self.frames[f].wsnaps[j].obj));
                let w = if op.k == K::WCounted { s.counted() } else { Weak::from(s) };
                with(|sh| sh.bump("wcounted"));
                self.put_weak(w);
                true
            }
            K::WStore => {
                let Some((name, cell)) = self.pick_wcell(op.a, x) else { return false };
                let Some(f) = self.pick_frame(op.c, x) else { return false };
                let (w, o) = match pick(op.b, self.weaks.len() + 1, x) {
                    None => return false,
                    Some(i) if i == self.weaks.len() => (Weak::null(), None),
                    Some(i) => self.take_weak(i),
                };
                self.log(format!("wstore({},{:?})", name, o));
                {
                    let (before, o0, nw) = (circ::verif::atomic_weak_peek(cell), sched::steps_by_others(self.tid), circ::verif::weak_word(&w));
                    cell.store(w, store_ord(op.c), &self.frames[f].guard);
                    cell_rw_check("C09", "AtomicWeak::store", before, circ::verif::atomic_weak_peek(cell), Some(nw), None, sched::steps_by_others(self.tid) == o0);
                }
                true
            }
            K::WSwap => {
                let Some((name, cell)) = self.pick_wcell(op.a, x) else { return false };
                let (w, o) = match pick(op.b, self.weaks.len() + 1, x) {
                    None => return false,
                    Some(i) if i == self.weaks.len() => (Weak::null(), None),
                    Some(i) => self.take_weak(i),
                };
                let (before, o0, nw) = (circ::verif::atomic_weak_peek(cell), sched::steps_by_others(self.tid), circ::verif::weak_word(&w));
                let old = cell.swap(w, swap_ord(op.c));
                cell_rw_check("C09", "AtomicWeak::swap", before, circ::verif::atomic_weak_peek(cell), Some(nw), Some(circ::verif::weak_word(&old)), sched::steps_by_others(self.tid) == o0);
                self.log(format!("wswap({},{:?})", name, o));
                self.put_weak(old);
                true
            }
            K::WCas | K::WCasWeak => self.do_wcas(op),
            K::WCasTag => {
                let Some((name, cell)) = self.pick_wcell(op.a, x) else { return false };
                let Some((f, j)) = self.pick_wsnap(op.b, x) else { return false };
                let exp = self.frames[f].wsnaps[j].s;
                let tag = (op.c >> 3) as usize;
                let (so, fo) = cas_ord(op.c);
                let before = circ::verif::atomic_weak_peek(cell);
                {
                    let ew = circ::verif::weak_snapshot_word(&exp);
                    if before != ew && (before & !(0xF << 60)) == (ew & !(0xF << 60)) {
                        with(|s| s.bump("wcas_expected_differs_in_epoch_bits_only"));
                    }
                }
                let others0 = sched::steps_by_others(self.tid);
                let guard: &Guard = unsafe { &*(&self.frames[f].guard as *const Guard) };
                let res = cell.compare_exchange_tag(exp, tag, so, fo, guard);
                let others1 = sched::steps_by_others(self.tid);
                {
                    let ew = circ::verif::weak_snapshot_word(&exp);
                    let after = circ::verif::atomic_weak_peek(cell);
                    cell_spec_check(
                        "C09",
                        "AtomicWeak::compare_exchange_tag",
                        before,
                        after,
                        ew,
                        (ew & !7usize) | (tag & 7),
                        res.is_ok(),
                        true,
                        others0 == others1,
                        res.as_ref().ok().map(|p| circ::verif::weak_snapshot_word(p)),
                        res.as_ref().err().map(|e| circ::verif::weak_snapshot_word(&e.current)),
                    );
                }
                match res {
                    Ok(s) => {
                        self.log(format!("wcas_tag({},{})=ok", name, tag));
                        with(|sh| sh.bump("wcas_ok"));
                        self.put_wsnap(f, s);
                    }
                    Err(e) => {
                        let cur = wunstatic(e.current);
                        self.log(format!("wcas_tag({},{})=fail", name, tag));
                        self.check_wcas_failure(&name, exp, cur, before, others0 == others1, "tag");
                        with(|sh| sh.bump("wcas_fail"));
                        self.put_wsnap(f, cur);
                    }
                }
                true
            }
        }
    }

    /// C09: a failed strong CAS must return a `current` that differs from `expected` under ptr_eq.
    fn check_wcas_failure(
        &self,
        name: &str,
        exp: WeakSnapshot<'static, VNode>,
        cur: WeakSnapshot<'static, VNode>,
        _before: usize,
        _undisturbed: bool,
        kind: &str,
    ) {
        if cur.ptr_eq(exp) {
            let d = format!(
                "AtomicWeak::compare_exchange{} on {} failed although current ptr_eq expected (expected word {:#x}, current word {:#x}: they differ only in the internal epoch bits); trace: {}",
                if kind == "tag" { "_tag" } else { "" },
                name,
                circ::verif::weak_snapshot_word(&exp),
                circ::verif::weak_snapshot_word(&cur),
                with(|s| s.tail(30))
            );
            violation("C09", "O-wcas", "O-wcas/fail-but-ptr_eq", &d);
        }
    }

    fn do_cas(&mut self, op: Op) -> bool {
        let x = op.x;
        let Some(c) = self.pick_cell(op.a, x) else { return false };
        // expected: a snapshot slot, or (last index) the null snapshot
        if self.frames.is_empty() {
            return false;
        }
        let mut all = Vec::new();
        for (ff, fr) in self.frames.iter().enumerate() {
            for jj in 0..fr.snaps.len() {
                all.push((ff, jj));
            }
        }
        let (f, exp, eo) = if x {
            if op.b == 255 {
                (self.frames.len() - 1, Snapshot::null(), None)
            } else {
                let Some((f, j)) = self.pick_snap(op.b, true) else { return false };
                (f, self.frames[f].snaps[j].s, self.frames[f].snaps[j].obj)
            }
        } else {
            let k = (op.b as usize * (all.len() + 1)) >> 8;
            if k == all.len() {
                (self.frames.len() - 1, Snapshot::null(), None)
            } else {
                let (f, j) = all[k];
                (f, self.frames[f].snaps[j].s, self.frames[f].snaps[j].obj)
            }
        };
        // desired: an Rc slot or null
        let dsel = if x {
            if op.c >> 3 == 31 { Some(self.rcs.len()) } else { pick(op.c >> 3, self.rcs.len(), true) }
        } else {
            pick(op.c, self.rcs.len() + 1, false)
        };
        let Some(di) = dsel else { return false };
        let (des, dobj) = if di == self.rcs.len() {
            (Rc::null(), None)
        } else {
            if !self.rank_ok(c, self.rcs[di].obj) {
                return false;
            }
            self.take_rc(di)
        };
        let dword = circ::verif::rc_word(&des);
        let (so, fo) = cas_ord(op.c);
        let cell = self.cell(c);
        {
            let (cw, ew) = (circ::verif::atomic_rc_peek(cell), circ::verif::snapshot_word(&exp));
            if cw != ew && (cw & !(0xF << 60)) == (ew & !(0xF << 60)) {
                with(|s| s.bump("cas_expected_differs_in_epoch_bits_only"));
            }
        }
        let guard: &Guard = unsafe { &*(&self.frames[f].guard as *const Guard) };
        let (before, ew) = (circ::verif::atomic_rc_peek(cell), circ::verif::snapshot_word(&exp));
        let others0 = sched::steps_by_others(self.tid);
        let res = if op.k == K::Cas {
            cell.compare_exchange(exp, des, so, fo, guard)
        } else {
            cell.compare_exchange_weak(exp, des, so, fo, guard)
        };
        let undisturbed = sched::steps_by_others(self.tid) == others0;
        let after = circ::verif::atomic_rc_peek(cell);
        cell_spec_check(
            "C08",
            if op.k == K::Cas { "AtomicRc::compare_exchange" } else { "AtomicRc::compare_exchange_weak" },
            before,
            after,
            ew,
            dword,
            res.is_ok(),
            op.k == K::Cas,
            undisturbed,
            res.as_ref().ok().map(|p| circ::verif::rc_word(p)),
            res.as_ref().err().map(|e| circ::verif::snapshot_word(&e.current)),
        );
        match res {
            Ok(prev) => {
                if !prev.snapshot(guard).ptr_eq(exp) {
                    violation("C08", "O-cas", "O-cas/prev-not-expected", "successful compare_exchange returned a previous value that is not ptr_eq to expected");
                }
                self.log(format!("cas({},{:?},{:?})=ok", Self::cell_name(c), eo, dobj));
                with(|s| {
                    s.bump("cas_ok");
                    s.bump("cell_writes");
                });
                self.put_rc(prev, "cas_prev");
            }
            Err(e) => {
                let cur = unstatic(e.current);
                let back = e.desired;
                if circ::verif::rc_word(&back) != dword {
                    violation("C08", "O-cas", "O-cas/desired-changed", "failed compare_exchange returned a different desired");
                }
                if op.k == K::Cas && cur.ptr_eq(exp) {
                    let d = format!("strong compare_exchange on {} failed although current ptr_eq expected; trace: {}", Self::cell_name(c), with(|s| s.tail(30)));
                    violation("C08", "O-cas", "O-cas/fail-but-equal", &d);
                }
                self.log(format!("cas({},{:?},{:?})=fail", Self::cell_name(c), eo, dobj));
                with(|s| s.bump("cas_fail"));
                self.put_rc(back, "cas_desired_back");
                self.put_snap(f, cur, "cas_current");
            }
        }
        true
    }

    fn do_wcas(&mut self, op: Op) -> bool {
        let x = op.x;
        let Some((name, cell)) = self.pick_wcell(op.a, x) else { return false };
        if self.frames.is_empty() {
            return false;
        }
        let mut all = Vec::new();
        for (ff, fr) in self.frames.iter().enumerate() {
            for jj in 0..fr.wsnaps.len() {
                all.push((ff, jj));
            }
        }
        let (f, exp) = if x {
            if op.b == 255 {
                (self.frames.len() - 1, WeakSnapshot::null())
            } else {
                let Some((f, j)) = self.pick_wsnap(op.b, true) else { return false };
                (f, self.frames[f].wsnaps[j].s)
            }
        } else {
            let k = (op.b as usize * (all.len() + 1)) >> 8;
            if k == all.len() {
                (self.frames.len() - 1, WeakSnapshot::null())
            } else {
                let (f, j) = all[k];
                (f, self.frames[f].wsnaps[j].s)
            }
        };
        let dsel = if x {
            if op.c >> 3 == 31 { Some(self.weaks.len()) } else { pick(op.c >> 3, self.weaks.len(), true) }
        } else {
            pick(op.c, self.weaks.len() + 1, false)
        };
        let Some(di) = dsel else { return false };
        let (des, dobj) = if di == self.weaks.len() {
            (Weak::null(), None)
        } else {
            self.take_weak(di)
        };
        let dword = circ::verif::weak_word(&des);
        let (so, fo) = cas_ord(op.c);
        let before = circ::verif::atomic_weak_peek(cell);
        {
            let ew = circ::verif::weak_snapshot_word(&exp);
            if before != ew && (before & !(0xF << 60)) == (ew & !(0xF << 60)) {
                with(|s| s.bump("wcas_expected_differs_in_epoch_bits_only"));
            }
        }
        let guard: &Guard = unsafe { &*(&self.frames[f].guard as *const Guard) };
        let ew = circ::verif::weak_snapshot_word(&exp);
        let others0 = sched::steps_by_others(self.tid);
        let res = if op.k == K::WCas {
            cell.compare_exchange(exp, des, so, fo, guard)
        } else {
            cell.compare_exchange_weak(exp, des, so, fo, guard)
        };
        let undisturbed = sched::steps_by_others(self.tid) == others0;
        let after = circ::verif::atomic_weak_peek(cell);
        cell_spec_check(
            "C09",
            if op.k == K::WCas { "AtomicWeak::compare_exchange" } else { "AtomicWeak::compare_exchange_weak" },
            before,
            after,
            ew,
            dword,
            res.is_ok(),
            op.k == K::WCas,
            undisturbed,
            res.as_ref().ok().map(|p| circ::verif::weak_word(p)),
            res.as_ref().err().map(|e| circ::verif::weak_snapshot_word(&e.current)),
        );
        match res {
            Ok(prev) => {
                if !prev.snapshot(guard).ptr_eq(exp) {
                    violation("C09", "O-wcas", "O-wcas/prev-not-expected", "successful AtomicWeak::compare_exchange returned a previous value that is not ptr_eq to expected");
                }
                self.log(format!("wcas({},{:?})=ok", name, dobj));
                with(|s| s.bump("wcas_ok"));
                self.put_weak(prev);
            }
            Err(e) => {
                let cur = wunstatic(e.current);
                if circ::verif::weak_word(&e.desired) != dword {
                    violation("C09", "O-wcas", "O-wcas/desired-changed", "failed AtomicWeak::compare_exchange returned a different desired");
                }
                self.log(format!("wcas({},{:?})=fail", name, dobj));
                if op.k == K::WCas {
                    self.check_wcas_failure(&name, exp, cur, before, true, "");
                }
                with(|s| s.bump("wcas_fail"));
                self.put_weak(e.desired);
                self.put_wsnap(f, cur);
            }
        }
        true
    }

    fn upgrade_pre(&self, o: usize) -> (bool, bool, Vec<u64>, u64) {
        let uids: Vec<u64> = self
            .rcs
            .iter()
            .filter(|r| r.obj == Some(o))
            .map(|r| r.uid)
            .collect();
        let others = sched::steps_by_others(self.tid);
        with(|s| {
            let ob = &s.objs[o];
            (ob.popped || ob.marked, ob.upgrade_failed, uids, others)
        })
    }

    fn upgrade_post(&self, o: usize, ok: bool, pre: (bool, bool, Vec<u64>, u64), what: &str) {
        let (begun, failed_before, _uids, others0) = pre;
        let others1 = sched::steps_by_others(self.tid);
        with(|s| {
            let ob = s.objs[o].clone();
            if ok {
                if begun || failed_before {
                    let sig = format!(
                        "O-upgrade/success-after-{}/{}",
                        if begun { "destruct" } else { "failure" },
                        match ob.dispose_depth { Some(0) => "root", Some(_) => "cascade", None => "unknown" }
                    );
                    let d = format!(
                        "{} of obj{} returned a reference although {} (popped={} marked={} dropped={} freed={}); trace: {}",
                        what, o,
                        if begun { "its destruction had begun before the call" } else { "an earlier upgrade had already failed" },
                        ob.popped, ob.marked, ob.dropped, ob.freed, s.tail(40)
                    );
                    violation("C05", "O-upgrade", &sig, &d);
                }
                if ob.popped {
                    // it returned a reference, which by C01/C02 keeps the object alive from the
                    // instant of its successful increment on; so destruction cannot have started
                    let sig = format!(
                        "O-upgrade/success-although-destructed-during-call/{}",
                        match ob.dispose_depth { Some(0) => "root", Some(_) => "cascade", None => "unknown" }
                    );
                    let d = format!(
                        "{} of obj{} returned a reference, but the object's destruction started while the call was in progress (popped={} dropped={} freed={}); trace: {}",
                        what, o, ob.popped, ob.dropped, ob.freed, s.tail(40)
                    );
                    // the same instant violates C01 (a counted owner of a destructed object was
                    // handed out): report it under the property being checked
                    if *CURRENT_PROP.lock().unwrap() == "C01" {
                        violation("C01", "O-own", "O-own/acquired-after-destruct/upgrade", &d);
                    }
                    violation("C05", "O-upgrade", &sig, &d);
                }
                s.objs[o].upgrades_ok_before += 1;
                s.bump("upgrade_ok");
                if s.strong_owner_count(o) == 0 {
                    s.bump("upgrade_ok_from_zero");
                }
            } else {
                // must-succeed rules
                let now_begun = ob.popped || ob.marked;
                let undisturbed = others0 == others1;
                // some Rc slot of *this* thread held o across the whole call, or another thread's
                // definite owner existed throughout (checked via owner count on both sides while
                // no other thread moved)
                let self_owner = self.rcs.iter().any(|r| r.obj == Some(o));
                if self_owner || (undisturbed && !now_begun) {
                    let sig = format!(
                        "O-upgrade/failure-{}",
                        if self_owner { "while-owned" } else { "before-destruct" }
                    );
                    let d = format!(
                        "{} of obj{} failed although {}; trace: {}",
                        what, o,
                        if self_owner { "the calling thread holds an Rc to it" } else { "its destruction has not begun and no other thread took a step during the call" },
                        s.tail(40)
                    );
                    violation("C05", "O-upgrade", &sig, &d);
                }
                s.objs[o].upgrade_failed = true;
                s.objs[o].upgrades_fail_after += 1;
                s.bump("upgrade_fail");
            }
            if !undisturbed_eq(others0, others1) {
                s.bump("upgrade_overlapped");
            }
        });
    }

    fn do_upgrade(&mut self, op: Op) -> bool {
        let Some(i) = pick(op.a, self.weaks.len(), op.x) else { return false };
        let o = self.weaks[i].obj;
        match o {
            None => {
                let r = self.weaks[i].w.upgrade();
                match r {
                    Some(rc) if rc.is_null() => {}
                    _ => violation("C05", "O-upgrade", "O-upgrade/null", "upgrade of a null Weak did not return Some(null)"),
                }
                true
            }
            Some(o) => {
                let pre = self.upgrade_pre(o);
                self.log(format!("upgrade(obj{})...", o));
                let r = self.weaks[i].w.upgrade();
                self.log(format!("upgrade(obj{})={}", o, r.is_some()));
                self.upgrade_post(o, r.is_some(), pre, "Weak::upgrade");
                if let Some(rc) = r {
                    if rc.is_null() {
                        violation("C05", "O-upgrade", "O-upgrade/nonnull-to-null", "upgrade of a non-null Weak returned a null Rc");
                    }
                    self.put_rc(rc, "upgrade");
                }
                true
            }
        }
    }

    fn do_wupgrade(&mut self, op: Op) -> bool {
        let Some((f, j)) = self.pick_wsnap(op.a, op.x) else { return false };
        let s = self.frames[f].wsnaps[j].s;
        match self.frames[f].wsnaps[j].obj {
            None => {
                match s.upgrade() {
                    Some(sn) if sn.is_null() => {}
                    _ => violation("C05", "O-upgrade", "O-upgrade/null", "upgrade of a null WeakSnapshot did not return Some(null)"),
                }
                true
            }
            Some(o) => {
                let pre = self.upgrade_pre(o);
                self.log(format!("wupgrade(obj{})...", o));
                let r = s.upgrade();
                self.log(format!("wupgrade(obj{})={}", o, r.is_some()));
                self.upgrade_post(o, r.is_some(), pre, "WeakSnapshot::upgrade");
                if let Some(sn) = r {
                    self.put_snap(f, sn, "wupgrade");
                }
                true
            }
        }
    }

    /// Releases everything the thread still holds (as ordinary API calls).
    pub fn epilogue(&mut self, flush: bool) {
        sched::op_begin();
        while !self.frames.is_empty() {
            let f = self.frames.len() - 1;
            self.end_holdings(f);
            let fr = self.frames.pop().unwrap();
            drop(fr);
        }
        if let Some((it, id)) = self.iter.take() {
            with(|s| s.objs[id].iter_shares = 0);
            drop(it);
        }
        while !self.rcs.is_empty() {
            self.drop_rc(0);
        }
        while !self.weaks.is_empty() {
            self.drop_weak(0);
        }
        if flush {
            let g = cs();
            g.flush();
        }
        sched::op_done();
    }
}


fn same_pt(a: usize, b: usize) -> bool {
    (a & !(0xFusize << 60)) == (b & !(0xFusize << 60))
}

/// Sequential specification of load / store / swap, applied when no other thread took a step.
fn cell_rw_check(prop: &'static str, what: &str, before: usize, after: usize, new: Option<usize>, returned: Option<usize>, undisturbed: bool) {
    if !undisturbed {
        return;
    }
    let oracle = if prop == "C08" { "O-cell" } else { "O-wcell" };
    let fail = |sig: &str, d: String| -> ! {
        let tr = with(|s| s.tail(30));
        violation(prop, oracle, &format!("{}/{}", oracle, sig), &format!("{}: {}; cell before {:#x}, after {:#x}; trace: {}", what, d, before, after, tr))
    };
    if let Some(r) = returned {
        if !same_pt(r, before) {
            fail("returned-not-content", format!("returned {:#x}, which is not the pointer+tag the cell held", r));
        }
    }
    match new {
        Some(n) => {
            if !same_pt(after, n) {
                fail("written-not-stored", format!("the cell should now hold {:#x} (pointer+tag)", n));
            }
        }
        None => {
            if after != before {
                fail("read-wrote", "a load changed the cell".to_string());
            }
        }
    }
}

/// Sequential specification of one CAS on a (pointer, tag) cell, applied when no other thread took
/// a step during the call (`undisturbed`), on raw words with the epoch bits masked by the harness
/// itself (not by the library's `ptr_eq`).
#[allow(clippy::too_many_arguments)]
fn cell_spec_check(
    prop: &'static str,
    what: &str,
    before: usize,
    after: usize,
    expected: usize,
    installed_on_success: usize,
    ok: bool,
    strong: bool,
    undisturbed: bool,
    returned_prev: Option<usize>,
    returned_current: Option<usize>,
) {
    let oracle = if prop == "C08" { "O-cas" } else { "O-wcas" };
    let fail = |sig: &str, d: String| -> ! {
        let tr = with(|s| s.tail(30));
        violation(prop, oracle, &format!("{}/{}", oracle, sig), &format!("{}: {}; cell before {:#x}, after {:#x}, expected {:#x}; trace: {}", what, d, before, after, expected, tr))
    };
    if let Some(p) = returned_prev {
        if ok && !same_pt(p, expected) {
            fail("prev-not-expected", format!("success returned a previous value {:#x} that differs from expected in pointer or tag", p));
        }
    }
    if let Some(c) = returned_current {
        if !ok && strong && same_pt(c, expected) {
            fail("fail-but-equal", format!("a strong CAS failed and returned a current value {:#x} that equals expected in pointer and tag", c));
        }
    }
    if !undisturbed {
        return;
    }
    let eq = same_pt(before, expected);
    if ok && !eq {
        fail("success-but-not-equal", "the CAS succeeded although the cell's pointer+tag differed from expected".to_string());
    }
    if !ok && eq && strong {
        fail("fail-but-equal", "a strong CAS failed although the cell's pointer+tag equalled expected and nobody else touched the cell".to_string());
    }
    if ok && !same_pt(after, installed_on_success) {
        fail("wrong-content-after-success", format!("after success the cell should hold {:#x} (pointer+tag)", installed_on_success));
    }
    if !ok && after != before {
        fail("failed-cas-wrote", "a failed CAS changed the cell".to_string());
    }
    if let Some(c) = returned_current {
        if !ok && !same_pt(c, before) {
            fail("wrong-current", format!("failure returned current {:#x}, which is not what the cell held", c));
        }
    }
    if let Some(p) = returned_prev {
        if ok && !same_pt(p, before) {
            fail("wrong-previous", format!("success returned previous {:#x}, which is not what the cell held", p));
        }
    }
}

fn undisturbed_eq(a: u64, b: u64) -> bool {
    a == b
}

// ------------------------------------------------------------------------------------------------

fn round() {
    let g = cs();
    g.flush();
}

/// Count conservation at a quiescent instant (no op in flight anywhere).
fn check_counts(sh: &'static Shared, th_all: &[&Th], stage: &str) {
    let _ = sh;
    with(|s| {
        for x in 0..s.objs.len() {
            let o = s.objs[x].clone();
            if o.freed {
                continue;
            }
            // read the count word through any handle: use the block address directly via a
            // temporary Weak view would touch counts; use a held pointer instead
            let counts = th_all
                .iter()
                .find_map(|t| {
                    t.rcs
                        .iter()
                        .find(|r| r.obj == Some(x))
                        .and_then(|r| circ::verif::rc_counts(&r.rc))
                        .or_else(|| {
                            t.weaks
                                .iter()
                                .find(|w| w.obj == Some(x))
                                .and_then(|w| circ::verif::weak_counts(&w.w))
                        })
                })
                .or_else(|| unsafe { circ::verif::counts_at_word::<VNode>(o.addr) });
            let Some((strong, weak, destructed, _weaked, _ep)) = counts else { continue };
            let exp_s = s.strong_owner_count(x) as u32;
            let exp_w = s.weak_owner_count(x) as u32;
            s.bump("count_checks");
            if !o.popped && !destructed {
                if !(strong == exp_s || strong == exp_s + 1) || (exp_s > 0 && !o.ever_zero && s.sequential && strong != exp_s) {
                    let d = format!(
                        "{}: obj{} has strong count {} but {} definite strong owners exist (slots={} iter={} cells={:?}); trace: {}",
                        stage, x, strong, exp_s, o.rc_owners, o.iter_shares, s.strong_cells_containing(x), s.tail(40)
                    );
                    let prop = if stage.starts_with("bulk") { "C10" } else { "C08" };
                    violation(prop, "O-count", "O-count/strong", &d);
                }
                if weak != exp_w + 1 {
                    let d = format!(
                        "{}: live obj{} has weak count {} but {} weak owners exist (+1 implicit) (slots={} cells={:?}); trace: {}",
                        stage, x, weak, exp_w, o.weak_owners, s.weak_cells_containing(x), s.tail(40)
                    );
                    violation("C09", "O-count", "O-count/weak", &d);
                }
            } else if o.dropped {
                if !(weak == exp_w || weak == exp_w + 1) {
                    let d = format!(
                        "{}: destructed obj{} has weak count {} but {} weak owners exist; trace: {}",
                        stage, x, weak, exp_w, s.tail(40)
                    );
                    violation("C09", "O-count", "O-count/weak-destructed", &d);
                }
            }
            if exp_s == 0 {
                s.objs[x].ever_zero = true;
            }
        }
    })
}

pub struct RcRun {
    pub counters: std::collections::BTreeMap<String, u64>,
    pub stall_sites: Vec<u32>,
    pub rounds_to_quiesce: u64,
}

/// Executes a case; returns the counters. Oracle trips terminate the process via `violation`.
pub fn run_case(case: &RcCase) -> RcRun {
    let shared: &'static Shared = Box::leak(Box::new(Shared {
        roots: std::array::from_fn(|_| AtomicRc::null()),
        wroots: std::array::from_fn(|_| AtomicWeak::null()),
    }));
    let n = case.threads.len().max(1);
    let sequential = n == 1;
    // freed blocks keep a poison pattern and are not handed out again within the case: a read
    // through a stale pointer (by the library or through a handle the model considers valid) sees
    // neither the old contents nor a new object
    crate::QUARANTINE.store(true, std::sync::atomic::Ordering::SeqCst);
    shadow::init(shared, sequential);
    if *CURRENT_PROP.lock().unwrap() == "C04" {
        with(|s| s.tolerate_own = true);
    }
    // the main thread's participant exists before the workers start
    for _ in 0..case.align {
        round();
    }
    if case.align == 0 {
        drop(cs());
    }
    let epoch0 = circ::verif::global_epoch();
    sched::init_rr(n, case.sched.clone(), case.rr as u32);
    let mut handles = Vec::new();
    let noflush = case.noflush;
    for t in 0..n {
        let ops: Vec<Op> = case.threads.get(t).cloned().unwrap_or_default();
        let h = std::thread::Builder::new()
            .name(format!("w{}", t))
            .spawn(move || {
                sched::worker_enter(t);
                let res = std::panic::catch_unwind(std::panic::AssertUnwindSafe(|| {
                    let mut th = Th::new(t, shared);
                    for op in ops {
                        th.exec(op);
                        if sequential {
                            check_counts(shared, &[&th], "after-op");
                        }
                    }
                    th.epilogue(!noflush);
                    (th.executed, th.noops)
                }));
                if let Err(e) = res {
                    let msg = if let Some(s) = e.downcast_ref::<String>() {
                        s.clone()
                    } else if let Some(s) = e.downcast_ref::<&str>() {
                        s.to_string()
                    } else {
                        "panic".into()
                    };
                    let tr = with(|s| s.tail(30));
                    violation("C20", "O-panic", "O-panic/worker", &format!("worker thread panicked: {}; trace: {}", msg, tr));
                }
            })
            .unwrap();
        handles.push(h);
    }
    sched::run_all();
    for h in handles {
        let _ = h.join();
    }
    let summary = sched::finish();
    // quiescent: all workers gone, only roots (and what hangs below them) own anything
    check_counts(shared, &[], "after-join");
    // release the roots
    with(|s| s.roots_live = false);
    for r in shared.roots.iter() {
        drop(r.swap(Rc::null(), Ordering::SeqCst));
    }
    for r in shared.wroots.iter() {
        drop(r.swap(Weak::null(), Ordering::SeqCst));
    }
    let nobj = with(|s| s.objs.len());
    let bound = 64 + 16 * nobj as u64;
    let mut rounds = 0u64;
    loop {
        let live = with(|s| s.by_addr.len());
        if live == 0 && shared.roots.iter().all(|r| circ::verif::atomic_rc_peek(r) & !(0xF << 60) & !7 == 0) {
            break;
        }
        if rounds >= bound {
            with(|s| {
                let left: Vec<String> = s
                    .objs
                    .iter()
                    .filter(|o| !o.freed)
                    .map(|o| format!("obj{}(popped={},dropped={},had_weak={})", o.id, o.popped, o.dropped, o.had_weak))
                    .collect();
                let kind = if s.objs.iter().any(|o| !o.freed && !o.dropped) { "object" } else { "block" };
                let d = format!(
                    "after all handles were dropped and {} collection rounds, {} blocks are still live: {:?}; trace: {}",
                    rounds, left.len(), left, s.tail(40)
                );
                violation("C04", "O-leak", &format!("O-leak/{}", kind), &d);
            });
        }
        round();
        rounds += 1;
        // a destructor may have handed a reference to a root cell meanwhile
        for r in shared.roots.iter() {
            if circ::verif::atomic_rc_peek(r) != 0 {
                drop(r.swap(Rc::null(), Ordering::SeqCst));
            }
        }
    }
    // filler objects created by destructor actions must be gone too
    let mut extra = 0;
    while with(|s| !s.untracked.is_empty()) {
        if extra > 64 {
            with(|s| {
                let d = format!("{} filler objects released inside destructors were never freed; trace: {}", s.untracked.len(), s.tail(30));
                violation("C04", "O-leak", "O-leak/filler", &d);
            });
        }
        round();
        extra += 1;
    }
    let epoch1 = circ::verif::global_epoch();
    let mut counters = std::collections::BTreeMap::new();
    with(|s| {
        for (k, v) in &s.c {
            counters.insert(k.to_string(), *v);
        }
    });
    counters.insert("steps".into(), summary.steps);
    for (t, n) in summary.steps_by.iter().enumerate() {
        counters.insert(format!("steps_t{}", t), *n);
    }
    counters.insert("switches".into(), summary.switches);
    counters.insert("mid_op_parks".into(), summary.mid_op_parks);
    counters.insert("epochs_total".into(), (epoch1 - epoch0) as u64);
    counters.insert("stalls_ge2_epochs".into(), summary.stalls.len() as u64);
    counters.insert("quiesce_rounds".into(), rounds);
    let mut sites: Vec<u32> = summary.stalls.iter().map(|s| s.site).collect();
    sites.sort();
    sites.dedup();
    RcRun {
        counters,
        stall_sites: sites,
        rounds_to_quiesce: rounds,
    }
}

fn get(c: &std::collections::BTreeMap<String, u64>, k: &str) -> u64 {
    c.get(k).cloned().unwrap_or(0)
}

static CURRENT_PROP: std::sync::Mutex<&'static str> = std::sync::Mutex::new("");

/// The exec function of all RcWorld-based checks.
pub fn exec(prop: &str, v: &serde_json::Value) -> Report {
    if v.get("exp").is_some() {
        return crate::sat::exec(prop, v);
    }
    if prop == "C01" {
        *CURRENT_PROP.lock().unwrap() = "C01";
    }
    if prop == "C04" {
        *CURRENT_PROP.lock().unwrap() = "C04";
    }
    let case: RcCase = serde_json::from_value(v.clone()).expect("bad RcCase");
    let run = run_case(&case);
    let c = &run.counters;
    let mut rep = Report::default();
    rep.nontrivial = match prop {
        "C01" => get(c, "destructs") >= 1 && get(c, "rc_acquired_not_new") >= 1 && get(c, "switches") >= 2,
        // (T10 is about disposal passes during which the epoch moves on: a case in which it did not is trivial)
        "C02" if case.tmpl == "T10" => get(c, "max_epochs_elapsed_within_one_disposal_pass") >= 3,
        "C02" => get(c, "destruct_while_peer_holds_snapshot") >= 1 || get(c, "rounds_while_object_protected_only_by_peer_snapshot") >= 1,
        "C03" => get(c, "dealloc_after_weak_outlived_object") >= 1,
        "C04" => get(c, "objects") >= 3 && get(c, "destruct_cascade") >= 1 && get(c, "destruct_root") >= 1,
        "C05" => (get(c, "upgrade_ok") >= 1 && get(c, "upgrade_fail") >= 1) || get(c, "upgrade_overlapped") >= 1,
        "C08" => (get(c, "cas_ok") >= 1 && get(c, "cas_fail") >= 1) || get(c, "cas_expected_differs_in_epoch_bits_only") >= 1,
        "C09" => (get(c, "wcas_ok") >= 1 && get(c, "wcas_fail") >= 1) || get(c, "wcas_expected_differs_in_epoch_bits_only") >= 1,
        "C10" => get(c, "objects") >= 1,
        _ => get(c, "ops_executed") >= 3,
    };
    for (k, v) in c {
        rep.counters.insert(k.clone(), *v);
    }
    if !case.tmpl.is_empty() {
        rep.label(&format!("tmpl:{}", case.tmpl));
    } else {
        rep.label("free");
    }
    if get(c, "destruct_cascade") > 0 {
        rep.label("cascade");
    }
    if get(c, "destructor_snapshots") > 0 {
        rep.label("api-use-inside-destructor");
    }
    if get(c, "max_epochs_elapsed_within_one_disposal_pass") >= 3 {
        rep.label("epoch-advanced->=3-within-one-disposal-pass");
    }
    if get(c, "stalls_ge2_epochs") > 0 {
        rep.label("stall>=2epochs");
    }
    for s in &run.stall_sites {
        rep.label(&format!("stall@{}", sched::site_name(*s)));
    }
    rep
}
