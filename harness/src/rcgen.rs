//! Generators for RcWorld cases: free random programs and choreography templates.

use proptest::prelude::*;
use proptest::strategy::BoxedStrategy;
use serde_json::Value;

use crate::rcworld::{Op, RcCase, K};
use crate::sched::{Directive, Until};
use circ::verif::site;

pub type W = &'static [(u32, K)];

/// Weight tables (simplest kinds first: shrinking moves towards the front).
pub const W_STRONG: W = &[
    (1, K::Nop),
    (6, K::Deref),
    (6, K::DerefS),
    (5, K::Advance),
    (9, K::Quiesce),
    (8, K::Pin),
    (7, K::Unpin),
    (10, K::New),
    (8, K::Clone),
    (12, K::Drop),
    (12, K::Load),
    (8, K::Counted),
    (10, K::Store),
    (5, K::Swap),
    (6, K::SwapNull),
    (6, K::Cas),
    (2, K::CasWeak),
    (2, K::CasTag),
    (5, K::Downgrade),
    (7, K::Upgrade),
    (3, K::WDrop),
    (1, K::WClone),
    (2, K::WLoad),
    (2, K::WStore),
    (1, K::WSwap),
    (1, K::WCas),
    (1, K::WCounted),
    (3, K::WUpgrade),
    (2, K::WSnapshot),
    (2, K::SnapDowngrade),
    (2, K::RcSnapshot),
    (3, K::Finalize),
    (2, K::NewMany2),
    (1, K::NewMany3),
    (2, K::NewIter),
    (3, K::IterNext),
    (1, K::IterAbort),
    (1, K::IterDrop),
    (1, K::WeakMany2),
    (1, K::RcTag),
    (1, K::SnapTag),
    (2, K::Reactivate),
    (1, K::ReactivateAfter),
    (2, K::Flush),
    (1, K::SnapToRc),
];

pub const W_WEAK: W = &[
    (1, K::Nop),
    (3, K::Deref),
    (3, K::DerefS),
    (5, K::Advance),
    (9, K::Quiesce),
    (8, K::Pin),
    (6, K::Unpin),
    (8, K::New),
    (3, K::Clone),
    (10, K::Drop),
    (5, K::Load),
    (3, K::Counted),
    (5, K::Store),
    (3, K::SwapNull),
    (10, K::Downgrade),
    (8, K::Upgrade),
    (10, K::WDrop),
    (5, K::WClone),
    (8, K::WLoad),
    (8, K::WStore),
    (5, K::WSwap),
    (4, K::WCas),
    (2, K::WCasWeak),
    (2, K::WCasTag),
    (8, K::WCounted),
    (6, K::WUpgrade),
    (5, K::WSnapshot),
    (4, K::SnapDowngrade),
    (2, K::RcSnapshot),
    (3, K::WeakMany2),
    (1, K::WTag),
    (2, K::Reactivate),
    (2, K::Flush),
    (2, K::SnapToWeak),
    (2, K::WSnapToWeak),
];

pub const W_CELL: W = &[
    (1, K::Nop),
    (3, K::Deref),
    (3, K::DerefS),
    (4, K::Advance),
    (7, K::Quiesce),
    (8, K::Pin),
    (4, K::Unpin),
    (8, K::New),
    (5, K::Clone),
    (5, K::Drop),
    (14, K::Load),
    (8, K::Counted),
    (10, K::Store),
    (8, K::Swap),
    (5, K::SwapNull),
    (14, K::Cas),
    (6, K::CasWeak),
    (8, K::CasTag),
    (3, K::RcTag),
    (4, K::SnapTag),
    (2, K::RcSnapshot),
    (1, K::Reactivate),
];

pub const W_WCELL: W = &[
    (1, K::Nop),
    (4, K::Advance),
    (7, K::Quiesce),
    (8, K::Pin),
    (4, K::Unpin),
    (8, K::New),
    (3, K::Clone),
    (4, K::Drop),
    (8, K::Load),
    (5, K::Store),
    (3, K::Swap),
    (10, K::Downgrade),
    (4, K::WDrop),
    (4, K::WClone),
    (12, K::WLoad),
    (10, K::WStore),
    (8, K::WSwap),
    (14, K::WCas),
    (5, K::WCasWeak),
    (8, K::WCasTag),
    (6, K::WCounted),
    (6, K::WSnapshot),
    (8, K::SnapDowngrade),
    (3, K::WTag),
    (2, K::RcTag),
    (2, K::Upgrade),
    (2, K::WUpgrade),
    (1, K::Reactivate),
];

pub const W_BULK: W = &[
    (1, K::Nop),
    (4, K::Deref),
    (5, K::Advance),
    (8, K::Quiesce),
    (5, K::Pin),
    (4, K::Unpin),
    (3, K::New),
    (3, K::Clone),
    (14, K::Drop),
    (4, K::Finalize),
    (8, K::NewMany2),
    (8, K::NewMany3),
    (8, K::NewIter),
    (14, K::IterNext),
    (5, K::IterAbort),
    (5, K::IterDrop),
    (10, K::WeakMany2),
    (8, K::WDrop),
    (5, K::Upgrade),
    (3, K::Store),
    (3, K::SwapNull),
    (2, K::Flush),
];

pub const W_READER: W = &[
    (1, K::Nop),
    (10, K::DerefS),
    (4, K::Deref),
    (8, K::Pin),
    (2, K::Unpin),
    (16, K::Load),
    (6, K::Counted),
    (3, K::Drop),
    (2, K::Reactivate),
    (2, K::WLoad),
    (3, K::WUpgrade),
    (2, K::Upgrade),
    (2, K::Downgrade),
    (2, K::SnapDowngrade),
    (1, K::Cas),
    (1, K::Quiesce),
];

pub const W_MUTATOR: W = &[
    (1, K::Nop),
    (3, K::Advance),
    (4, K::Quiesce),
    (8, K::Pin),
    (5, K::Unpin),
    (6, K::New),
    (3, K::Clone),
    (12, K::Drop),
    (8, K::Load),
    (4, K::Counted),
    (8, K::Store),
    (4, K::Swap),
    (12, K::SwapNull),
    (6, K::Cas),
    (2, K::CasTag),
    (3, K::Finalize),
    (2, K::Downgrade),
    (2, K::WStore),
    (2, K::WDrop),
];

pub const W_COLLECTOR: W = &[
    (1, K::Nop),
    (20, K::Advance),
    (6, K::Quiesce),
    (2, K::SwapNull),
    (3, K::Drop),
    (1, K::New),
];

/// Role-based programs on a prebuilt structure: thread 0 reads (long critical sections), threads
/// 1-2 mutate and unlink, thread 3 collects. Thread 1 first builds Q -> P -> X under root0 with
/// X also in root1 and P also in root2, a Weak to X in wroot0.
pub fn role_case(max_ops: usize, max_dirs: usize, sites: &'static [u32]) -> BoxedStrategy<Value> {
    (
        0u8..48,
        proptest::collection::vec(op_strategy(W_READER), 0..=max_ops),
        proptest::collection::vec(op_strategy(W_MUTATOR), 0..=max_ops),
        proptest::collection::vec(op_strategy(W_MUTATOR), 0..=max_ops),
        proptest::collection::vec(op_strategy(W_COLLECTOR), 0..=max_ops / 2),
        proptest::collection::vec(directive_strategy(4, sites), 0..=max_dirs),
        0u8..4,
        prop_oneof![1 => Just(0u8), 4 => 1u8..4],
    )
        .prop_map(|(align, r, m1, m2, c, dirs, settle, rr)| {
            let mut t = TB::new(4);
            t.new_node(1, "X", None, None, 3, 40);
            t.new_node(1, "P", Some("X"), None, 3, 0);
            t.new_node(1, "Q", Some("P"), None, 3, 0);
            t.pin(1);
            t.store(1, C::Root(0), Some("Q"), 0);
            t.clone_rc(1, "X", "Xc");
            t.store(1, C::Root(1), Some("Xc"), 0);
            t.clone_rc(1, "P", "Pc");
            t.store(1, C::Root(2), Some("Pc"), 0);
            t.downgrade(1, "X", "w");
            t.wstore(1, WC::Root(0), Some("w"), 0);
            t.unpin(1, 0);
            t.advance(1, settle);
            t.run(1);
            let mut threads = t.threads.clone();
            let mut sched = t.sched.clone();
            threads[0].extend(r);
            threads[1].extend(m1);
            threads[2].extend(m2);
            threads[3].extend(c);
            sched.extend(dirs);
            serde_json::to_value(RcCase {
                align,
                threads,
                sched,
                tmpl: "roles".to_string(),
                rr,
                noflush: align % 2 == 1,
            })
            .unwrap()
        })
        .boxed()
}

pub fn op_strategy(w: W) -> impl Strategy<Value = Op> {
    let total: u32 = w.iter().map(|(n, _)| *n).sum();
    (0..total, any::<u8>(), any::<u8>(), any::<u8>()).prop_map(move |(mut i, a, b, c)| {
        let mut k = K::Nop;
        for (n, kk) in w.iter() {
            if i < *n {
                k = *kk;
                break;
            }
            i -= *n;
        }
        Op { k, a, b, c, x: false }
    })
}

pub const SITES_RC: &[u32] = &[
    site::INC_S_1,
    site::INC_S_2,
    site::DEC_S_LOAD,
    site::DEC_S_CAS,
    site::TD_LOAD,
    site::TD_CAS,
    site::CASC_STATE,
    site::CASC_LOAD,
    site::CASC_CAS,
    site::CASC_WEAKED,
    site::CASC_MARK_LOAD,
    site::CASC_MARK_CAS,
    site::IND_LOAD,
    site::IND_CAS,
    site::LINK_LOAD,
    site::LINK_SWAP,
    site::LINK_CAS,
    site::EPOCH_LOAD,
    site::EPOCH_LOADED,
    site::EPOCH_STORE,
    site::INC_W_LOAD,
    site::INC_W_CAS,
    site::INC_W_FA1,
    site::INC_W_FA2,
    site::DEC_W,
    site::TDA_LOAD,
    site::WLINK_LOAD,
    site::WLINK_SWAP,
    site::WLINK_CAS,
];

pub fn directive_strategy(nthreads: u8, sites: &'static [u32]) -> impl Strategy<Value = Directive> {
    let until = prop_oneof![
        3 => (1u32..6).prop_map(Until::Ops),
        3 => (0u32..40).prop_map(Until::Steps),
        4 => (0..sites.len(), 1u32..4).prop_map(move |(i, nth)| Until::Site { site: sites[i], nth, ops: 0 }),
        1 => Just(Until::End),
    ];
    (0..nthreads, until).prop_map(|(thread, until)| Directive { thread, until })
}

pub fn free_case(
    w: W,
    max_threads: usize,
    max_ops: usize,
    max_dirs: usize,
    sites: &'static [u32],
) -> BoxedStrategy<Value> {
    (1..=max_threads)
        .prop_flat_map(move |n| {
            (
                0u8..48,
                proptest::collection::vec(
                    proptest::collection::vec(op_strategy(w), 0..=max_ops),
                    n..=n,
                ),
                proptest::collection::vec(directive_strategy(n as u8, sites), 0..=max_dirs),
                prop_oneof![Just(0u8), 1u8..4],
                any::<bool>(),
            )
        })
        .prop_map(|(align, threads, sched, rr, noflush)| {
            serde_json::to_value(RcCase {
                align,
                threads,
                sched,
                tmpl: String::new(),
                rr,
                noflush,
            })
            .unwrap()
        })
        .boxed()
}

pub fn seq_case(w: W, max_ops: usize) -> BoxedStrategy<Value> {
    (
        0u8..48,
        proptest::collection::vec(op_strategy(w), 0..=max_ops),
    )
        .prop_map(|(align, ops)| {
            serde_json::to_value(RcCase {
                align,
                threads: vec![ops],
                sched: vec![],
                tmpl: String::new(),
                rr: 0,
                noflush: false,
            })
            .unwrap()
        })
        .boxed()
}

// ------------------------------------------------------------------------------------------------
// Template builder: tracks slot layouts symbolically so that exact operands can be emitted.

#[derive(Clone, Debug)]
pub enum C {
    Root(u8),
    /// edge `e` of the node behind the named Rc or Snapshot of the acting thread
    Edge(&'static str, u8),
}
#[derive(Clone, Debug)]
pub enum WC {
    Root(u8),
    Wedge(&'static str),
}

#[derive(Default, Clone)]
struct TState {
    rcs: Vec<String>,
    weaks: Vec<String>,
    frames: Vec<(Vec<String>, Vec<String>)>,
}

pub struct TB {
    /// every node gets a count stamp right after its creation (a clone is made and dropped), as
    /// if it had been in use for a while; a never-decremented count word carries stamp 0, which
    /// is indistinguishable from a decrement in an epoch that is a multiple of 16
    pub prestamp: bool,
    pub threads: Vec<Vec<Op>>,
    pub sched: Vec<Directive>,
    st: Vec<TState>,
    pending: Vec<u32>,
}

fn is_null(name: &str) -> bool {
    name.starts_with('0')
}

impl TB {
    pub fn new(n: usize) -> TB {
        TB {
            prestamp: false,
            threads: vec![Vec::new(); n],
            sched: Vec::new(),
            st: vec![TState::default(); n],
            pending: vec![0; n],
        }
    }
    fn push(&mut self, t: usize, k: K, a: u8, b: u8, c: u8) {
        self.threads[t].push(Op { k, a, b, c, x: true });
        self.pending[t] += 1;
    }
    fn rc_idx(&self, t: usize, name: &str) -> u8 {
        self.st[t].rcs.iter().position(|n| n == name).map(|i| i as u8).unwrap_or(200)
    }
    fn weak_idx(&self, t: usize, name: &str) -> u8 {
        self.st[t].weaks.iter().position(|n| n == name).map(|i| i as u8).unwrap_or(200)
    }
    fn snap_idx(&self, t: usize, name: &str) -> u8 {
        for (f, fr) in self.st[t].frames.iter().enumerate() {
            if let Some(j) = fr.0.iter().position(|n| n == name) {
                return (f * 8 + j) as u8;
            }
        }
        200
    }
    fn wsnap_idx(&self, t: usize, name: &str) -> u8 {
        for (f, fr) in self.st[t].frames.iter().enumerate() {
            if let Some(j) = fr.1.iter().position(|n| n == name) {
                return (f * 8 + j) as u8;
            }
        }
        200
    }
    fn snap_frame(&self, t: usize, name: &str) -> usize {
        for (f, fr) in self.st[t].frames.iter().enumerate() {
            if fr.0.iter().any(|n| n == name) {
                return f;
            }
        }
        0
    }
    fn holder_idx(&self, t: usize, name: &str) -> Option<usize> {
        let mut k = 0;
        for n in &self.st[t].rcs {
            if !is_null(n) {
                if n == name {
                    return Some(k);
                }
                k += 1;
            }
        }
        for fr in &self.st[t].frames {
            for n in &fr.0 {
                if !is_null(n) {
                    if n == name {
                        return Some(k);
                    }
                    k += 1;
                }
            }
        }
        None
    }
    fn cell(&self, t: usize, c: &C) -> u8 {
        match c {
            C::Root(i) => *i,
            C::Edge(name, e) => match self.holder_idx(t, name) {
                Some(k) => (16 + 2 * k + *e as usize) as u8,
                None => 15,
            },
        }
    }
    fn wcell(&self, t: usize, c: &WC) -> u8 {
        match c {
            WC::Root(i) => *i,
            WC::Wedge(name) => match self.holder_idx(t, name) {
                Some(k) => (16 + k) as u8,
                None => 15,
            },
        }
    }
    fn add_rc(&mut self, t: usize, name: &str) {
        if self.st[t].rcs.len() >= crate::rcworld::MAX_RCS {
            self.st[t].rcs.remove(0);
        }
        self.st[t].rcs.push(name.to_string());
    }
    fn add_weak(&mut self, t: usize, name: &str) {
        if self.st[t].weaks.len() >= crate::rcworld::MAX_WEAKS {
            self.st[t].weaks.remove(0);
        }
        self.st[t].weaks.push(name.to_string());
    }
    fn add_snap(&mut self, t: usize, f: usize, name: &str) {
        if self.st[t].frames[f].0.len() >= crate::rcworld::MAX_SNAPS {
            self.st[t].frames[f].0.remove(0);
        }
        self.st[t].frames[f].0.push(name.to_string());
    }
    fn add_wsnap(&mut self, t: usize, f: usize, name: &str) {
        if self.st[t].frames[f].1.len() >= crate::rcworld::MAX_WSNAPS {
            self.st[t].frames[f].1.remove(0);
        }
        self.st[t].frames[f].1.push(name.to_string());
    }

    // ---- ops ----
    /// New node; edges are clones of the named Rcs (unstamped links). `pop_mask`: which edges
    /// `pop_edges` hands to the cascade.
    pub fn new_node(&mut self, t: usize, name: &str, e0: Option<&str>, e1: Option<&str>, pop_mask: u8, rank_hint: u8) {
        let mut c = 32 | (pop_mask & 3);
        let mut a = 0;
        let mut b = rank_hint;
        if let Some(n) = e0 {
            a = self.rc_idx(t, n);
            c |= 4;
        }
        if let Some(n) = e1 {
            b = self.rc_idx(t, n);
            c |= 8;
        }
        self.push(t, K::New, a, b, c);
        self.add_rc(t, name);
        if self.prestamp {
            self.clone_rc(t, name, "_ps");
            self.drop_rc(t, "_ps");
        }
    }
    /// New edge-less node whose destructor uses the API (`dact` as in `shadow::destructor_action`).
    pub fn new_node_dact(&mut self, t: usize, name: &str, dact: u8, rank_hint: u8) {
        self.push(t, K::New, dact.wrapping_sub(1), rank_hint, 32 | 3 | 64 | 128);
        self.add_rc(t, name);
    }
    /// chain of 2*(half+1) nodes; the head gets `name`
    pub fn new_chain(&mut self, t: usize, name: &str, half: u8) {
        self.push(t, K::NewChain, half, 0, 0);
        self.add_rc(t, name);
    }
    /// chain of 2*(half+1) + 256*blocks nodes; `weak` names a Weak to the node 1020 + c links from the head
    pub fn new_long_chain(&mut self, t: usize, name: &str, half: u8, blocks: u8, c: u8, weak: &str) {
        self.push(t, K::NewChain, half, blocks, c);
        self.add_rc(t, name);
        if c > 0 {
            self.add_weak(t, weak);
        }
    }
    pub fn until_event(&mut self, t: usize, kind: u32, nth: u32) {
        self.sched.push(Directive { thread: t as u8, until: Until::Event { kind, nth } });
    }
    pub fn until_steps(&mut self, t: usize, n: u32) {
        self.sched.push(Directive { thread: t as u8, until: Until::Steps(n) });
    }
    pub fn until_end(&mut self, t: usize) {
        self.sched.push(Directive { thread: t as u8, until: Until::End });
    }
    pub fn clone_rc(&mut self, t: usize, src: &str, name: &str) {
        let a = self.rc_idx(t, src);
        self.push(t, K::Clone, a, 0, 0);
        self.add_rc(t, name);
    }
    pub fn drop_rc(&mut self, t: usize, name: &str) {
        let a = self.rc_idx(t, name);
        self.push(t, K::Drop, a, 0, 0);
        if (a as usize) < self.st[t].rcs.len() {
            self.st[t].rcs.remove(a as usize);
        }
    }
    pub fn finalize(&mut self, t: usize, name: &str, f: u8) {
        let a = self.rc_idx(t, name);
        self.push(t, K::Finalize, a, f, 0);
        if (a as usize) < self.st[t].rcs.len() {
            self.st[t].rcs.remove(a as usize);
        }
    }
    pub fn deref(&mut self, t: usize, name: &str) {
        let a = self.rc_idx(t, name);
        self.push(t, K::Deref, a, 0, 0);
    }
    pub fn deref_s(&mut self, t: usize, name: &str) {
        let a = self.snap_idx(t, name);
        self.push(t, K::DerefS, a, 0, 0);
    }
    pub fn pin(&mut self, t: usize) {
        self.push(t, K::Pin, 0, 0, 0);
        self.st[t].frames.push((Vec::new(), Vec::new()));
    }
    pub fn unpin(&mut self, t: usize, f: u8) {
        self.push(t, K::Unpin, f, 0, 0);
        if (f as usize) < self.st[t].frames.len() {
            self.st[t].frames.remove(f as usize);
        }
    }
    pub fn reactivate(&mut self, t: usize, f: u8) {
        self.push(t, K::Reactivate, f, 0, 0);
        if (f as usize) < self.st[t].frames.len() {
            self.st[t].frames[f as usize] = (Vec::new(), Vec::new());
        }
    }
    pub fn advance(&mut self, t: usize, k: u8) {
        if k > 0 {
            self.push(t, K::Advance, k, 0, 0);
        }
    }
    pub fn load(&mut self, t: usize, c: C, f: u8, name: &str) {
        let a = self.cell(t, &c);
        self.push(t, K::Load, a, f, 0);
        self.add_snap(t, f as usize, name);
    }
    pub fn counted(&mut self, t: usize, snap: &str, name: &str) {
        let a = self.snap_idx(t, snap);
        self.push(t, K::Counted, a, 0, 0);
        self.add_rc(t, name);
    }
    pub fn rc_snapshot(&mut self, t: usize, rc: &str, f: u8, name: &str) {
        let a = self.rc_idx(t, rc);
        self.push(t, K::RcSnapshot, a, f, 0);
        self.add_snap(t, f as usize, name);
    }
    /// store `rc` (None = null) into the cell
    pub fn store(&mut self, t: usize, c: C, rc: Option<&str>, f: u8) {
        let a = self.cell(t, &c);
        let b = match rc {
            Some(n) => self.rc_idx(t, n),
            None => self.st[t].rcs.len() as u8,
        };
        self.push(t, K::Store, a, b, f);
        if let Some(_) = rc {
            if (b as usize) < self.st[t].rcs.len() {
                self.st[t].rcs.remove(b as usize);
            }
        }
    }
    pub fn swap_null(&mut self, t: usize, c: C, name: &str) {
        let a = self.cell(t, &c);
        self.push(t, K::SwapNull, a, 0, 0);
        self.add_rc(t, name);
    }
    pub fn swap(&mut self, t: usize, c: C, rc: &str, name: &str) {
        let a = self.cell(t, &c);
        let b = self.rc_idx(t, rc);
        self.push(t, K::Swap, a, b, 0);
        if (b as usize) < self.st[t].rcs.len() {
            self.st[t].rcs.remove(b as usize);
        }
        self.add_rc(t, name);
    }
    /// CAS; `expect_ok` tells the builder which slot layout to assume afterwards.
    pub fn cas(&mut self, t: usize, c: C, exp: Option<&str>, des: Option<&str>, expect_ok: bool, prev_name: &str, cur_name: &str) {
        let a = self.cell(t, &c);
        let b = match exp {
            Some(n) => self.snap_idx(t, n),
            None => 255,
        };
        let (di, cc) = match des {
            Some(n) => {
                let i = self.rc_idx(t, n);
                (Some(i), (i.min(30)) << 3)
            }
            None => (None, 31 << 3),
        };
        let f = exp.map(|n| self.snap_frame(t, n)).unwrap_or(self.st[t].frames.len().saturating_sub(1));
        self.push(t, K::Cas, a, b, cc);
        if let Some(i) = di {
            if (i as usize) < self.st[t].rcs.len() {
                let nm = self.st[t].rcs.remove(i as usize);
                if !expect_ok {
                    self.add_rc(t, &nm);
                }
            }
        } else if !expect_ok {
            self.add_rc(t, "0back");
        }
        if expect_ok {
            self.add_rc(t, prev_name);
        } else {
            self.add_snap(t, f, cur_name);
        }
    }
    pub fn cas_tag(&mut self, t: usize, c: C, exp: &str, tag: u8, name: &str) {
        let a = self.cell(t, &c);
        let b = self.snap_idx(t, exp);
        let f = self.snap_frame(t, exp);
        self.push(t, K::CasTag, a, b, tag << 3);
        self.add_snap(t, f, name);
    }
    pub fn downgrade(&mut self, t: usize, rc: &str, name: &str) {
        let a = self.rc_idx(t, rc);
        self.push(t, K::Downgrade, a, 0, 0);
        self.add_weak(t, name);
    }
    pub fn upgrade(&mut self, t: usize, w: &str, expect_ok: bool, name: &str) {
        let a = self.weak_idx(t, w);
        self.push(t, K::Upgrade, a, 0, 0);
        if expect_ok {
            self.add_rc(t, name);
        }
    }
    pub fn wdrop(&mut self, t: usize, w: &str) {
        let a = self.weak_idx(t, w);
        self.push(t, K::WDrop, a, 0, 0);
        if (a as usize) < self.st[t].weaks.len() {
            self.st[t].weaks.remove(a as usize);
        }
    }
    pub fn wclone(&mut self, t: usize, w: &str, name: &str) {
        let a = self.weak_idx(t, w);
        self.push(t, K::WClone, a, 0, 0);
        self.add_weak(t, name);
    }
    pub fn wsnapshot(&mut self, t: usize, w: &str, f: u8, name: &str) {
        let a = self.weak_idx(t, w);
        self.push(t, K::WSnapshot, a, f, 0);
        self.add_wsnap(t, f as usize, name);
    }
    pub fn wload(&mut self, t: usize, c: WC, f: u8, name: &str) {
        let a = self.wcell(t, &c);
        self.push(t, K::WLoad, a, f, 0);
        self.add_wsnap(t, f as usize, name);
    }
    pub fn wstore(&mut self, t: usize, c: WC, w: Option<&str>, f: u8) {
        let a = self.wcell(t, &c);
        let b = match w {
            Some(n) => self.weak_idx(t, n),
            None => self.st[t].weaks.len() as u8,
        };
        self.push(t, K::WStore, a, b, f);
        if w.is_some() && (b as usize) < self.st[t].weaks.len() {
            self.st[t].weaks.remove(b as usize);
        }
    }
    pub fn wswap(&mut self, t: usize, c: WC, w: Option<&str>, name: &str) {
        let a = self.wcell(t, &c);
        let b = match w {
            Some(n) => self.weak_idx(t, n),
            None => self.st[t].weaks.len() as u8,
        };
        self.push(t, K::WSwap, a, b, 0);
        if w.is_some() && (b as usize) < self.st[t].weaks.len() {
            self.st[t].weaks.remove(b as usize);
        }
        self.add_weak(t, name);
    }
    pub fn wcounted(&mut self, t: usize, ws: &str, name: &str) {
        let a = self.wsnap_idx(t, ws);
        self.push(t, K::WCounted, a, 0, 0);
        self.add_weak(t, name);
    }
    pub fn wupgrade(&mut self, t: usize, ws: &str, expect_ok: bool, name: &str) {
        let a = self.wsnap_idx(t, ws);
        let f = self.st[t]
            .frames
            .iter()
            .position(|fr| fr.1.iter().any(|n| n == ws))
            .unwrap_or(0);
        self.push(t, K::WUpgrade, a, 0, 0);
        if expect_ok {
            self.add_snap(t, f, name);
        }
    }
    pub fn snap_downgrade(&mut self, t: usize, s: &str, name: &str) {
        let a = self.snap_idx(t, s);
        let f = self.snap_frame(t, s);
        self.push(t, K::SnapDowngrade, a, 0, 0);
        self.add_wsnap(t, f, name);
    }
    pub fn wcas_weak(&mut self, t: usize, c: WC, exp: Option<&str>, des: Option<&str>, expect_ok: bool, prev_name: &str, cur_name: &str) {
        self.wcas(t, c, exp, des, expect_ok, prev_name, cur_name);
        if let Some(op) = self.threads[t].last_mut() {
            op.k = K::WCasWeak;
        }
    }
    pub fn cas_weak(&mut self, t: usize, c: C, exp: Option<&str>, des: Option<&str>, expect_ok: bool, prev_name: &str, cur_name: &str) {
        self.cas(t, c, exp, des, expect_ok, prev_name, cur_name);
        if let Some(op) = self.threads[t].last_mut() {
            op.k = K::CasWeak;
        }
    }
    pub fn wcas(&mut self, t: usize, c: WC, exp: Option<&str>, des: Option<&str>, expect_ok: bool, prev_name: &str, cur_name: &str) {
        let a = self.wcell(t, &c);
        let b = match exp {
            Some(n) => self.wsnap_idx(t, n),
            None => 255,
        };
        let (di, cc) = match des {
            Some(n) => {
                let i = self.weak_idx(t, n);
                (Some(i), (i.min(30)) << 3)
            }
            None => (None, 31 << 3),
        };
        let f = exp
            .and_then(|n| self.st[t].frames.iter().position(|fr| fr.1.iter().any(|m| m == n)))
            .unwrap_or(self.st[t].frames.len().saturating_sub(1));
        self.push(t, K::WCas, a, b, cc);
        if let Some(i) = di {
            if (i as usize) < self.st[t].weaks.len() {
                let nm = self.st[t].weaks.remove(i as usize);
                if !expect_ok {
                    self.add_weak(t, &nm);
                }
            }
        } else if !expect_ok {
            self.add_weak(t, "0back");
        }
        if expect_ok {
            self.add_weak(t, prev_name);
        } else {
            self.add_wsnap(t, f, cur_name);
        }
    }
    pub fn wcas_tag(&mut self, t: usize, c: WC, exp: &str, tag: u8, name: &str) {
        let a = self.wcell(t, &c);
        let b = self.wsnap_idx(t, exp);
        let f = self.st[t]
            .frames
            .iter()
            .position(|fr| fr.1.iter().any(|m| m == exp))
            .unwrap_or(0);
        self.push(t, K::WCasTag, a, b, tag << 3);
        self.add_wsnap(t, f, name);
    }
    pub fn raw(&mut self, t: usize, k: K, a: u8, b: u8, c: u8) {
        self.push(t, k, a, b, c);
    }

    // ---- phases ----
    /// Let `t` run everything emitted for it so far.
    pub fn run(&mut self, t: usize) {
        let n = self.threads[t].len() as u32;
        self.sched.push(Directive { thread: t as u8, until: Until::OpIndex(n) });
    }
    /// Let `t` run everything emitted for it so far, but park it right before its `nth` visit of
    /// `site` inside the last of those ops (if that op visits the site at all). `site == 0`: no
    /// parking.
    pub fn run_until_site(&mut self, t: usize, site: u32, nth: u32) {
        if site == 0 {
            self.run(t);
            return;
        }
        let n = self.threads[t].len() as u32;
        if n == 0 {
            return;
        }
        self.sched.push(Directive { thread: t as u8, until: Until::OpIndex(n - 1) });
        self.sched.push(Directive { thread: t as u8, until: Until::Site { site, nth, ops: 1 } });
    }
    pub fn finish(mut self, align: u8, tmpl: &str) -> Value {
        // remaining phases run in index order by the scheduler's fallback
        for t in 0..self.threads.len() {
            self.pending[t] = 0;
        }
        serde_json::to_value(RcCase {
            align,
            threads: self.threads,
            sched: self.sched,
            tmpl: tmpl.to_string(),
            rr: 0,
            noflush: align % 3 == 2,
        })
        .unwrap()
    }
}
