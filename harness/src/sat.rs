//! Saturation of the count fields: programs whose number of owners approaches or exceeds what the
//! 29-bit strong / weak fields of the count word can represent. The properties quantify over every
//! count (C10), every program of API calls (C01) and every history of upgrades (C05); the code
//! imposes no documented limit, so the generators must not either. A call may reject such a count
//! cleanly (panic without side effects on the object); what it must not do is lose owners silently.
//!
//! Three modes:
//!  0  `Rc::new_many_iter(obj, count)` with `count` around 2^28 .. 2^64 (lazy iterator: cheap)
//!  1  two live handles plus `k` clones leaked with `mem::forget` (k around 2^29: seconds)
//!  2  one live Weak plus `k` leaked Weak clones
use crate::runner::{violation, Report};
use circ::{cs, Rc, RcObject};
use proptest::prelude::*;
use serde::{Deserialize, Serialize};
use serde_json::Value;
use std::sync::atomic::{AtomicU64, Ordering::SeqCst};

static POPPED: AtomicU64 = AtomicU64::new(0);
static DROPPED: AtomicU64 = AtomicU64::new(0);
static FREED: AtomicU64 = AtomicU64::new(0);

pub struct SNode {
    v: u64,
}
unsafe impl RcObject for SNode {
    fn pop_edges(&mut self, _: &mut Vec<Rc<Self>>) {
        POPPED.fetch_add(1, SeqCst);
    }
}
impl Drop for SNode {
    fn drop(&mut self) {
        self.v = 0;
        DROPPED.fetch_add(1, SeqCst);
    }
}

fn sat_event(kind: u32, _addr: usize, _aux: usize) {
    if kind == circ::verif::ev::DEALLOC {
        FREED.fetch_add(1, SeqCst);
    }
}

fn round() {
    let g = cs();
    g.flush();
}

fn rounds(k: usize) {
    for _ in 0..k {
        round();
    }
}

#[derive(Serialize, Deserialize, Clone, Debug)]
pub struct SatCase {
    pub align: u8,
    pub mode: u8,
    /// exponent of the base of the count: count = 2^exp + off (wrapping; exp 64 means 0, so that
    /// negative offsets reach usize::MAX)
    pub exp: u8,
    pub off: i8,
    /// iterator: how many are taken
    pub prefix: u8,
    pub abort: bool,
    /// order in which the taken handles are released (selectors), with rounds in between
    pub order: Vec<u8>,
}

pub fn count_of(c: &SatCase) -> usize {
    let base: usize = if c.exp >= 64 { 0 } else { 1usize << c.exp };
    base.wrapping_add(c.off as isize as usize)
}

pub fn iter_strategy() -> BoxedStrategy<Value> {
    (
        0u8..20,
        prop_oneof![
            6 => Just(29u8),
            3 => Just(32u8),
            2 => Just(28u8),
            1 => Just(30u8),
            1 => Just(31u8),
            1 => Just(33u8),
            1 => Just(58u8),
            1 => Just(63u8),
            1 => Just(64u8),
            1 => 5u8..64
        ],
        -4i8..5,
        0u8..5,
        any::<bool>(),
        proptest::collection::vec(any::<u8>(), 0..6),
    )
        .prop_map(|(align, exp, off, prefix, abort, order)| serde_json::to_value(SatCase { align, mode: 0, exp, off, prefix, abort, order }).unwrap())
        .boxed()
}

pub fn leak_strategy(mode: u8) -> BoxedStrategy<Value> {
    // the number of leaked shares: the field holds 2^29 - 1; two (clone) resp. two (weak: the
    // implicit share and the live Weak) are there already
    // (half the field is where a racy, unconditional addition has to stop)
    (0u8..20, -6i8..4, any::<bool>(), proptest::collection::vec(any::<u8>(), 0..4), prop_oneof![2 => Just(29u8), 1 => Just(28u8)])
        .prop_map(move |(align, off, abort, order, exp)| serde_json::to_value(SatCase { align, mode, exp, off, prefix: 0, abort, order }).unwrap())
        .boxed()
}

fn fail(prop: &'static str, what: &str, d: String) -> ! {
    violation(prop, "O-saturate", &format!("O-saturate/{}", what), &d)
}

fn destructed() -> bool {
    POPPED.load(SeqCst) > 0 || DROPPED.load(SeqCst) > 0
}

pub fn exec(prop: &str, v: &Value) -> Report {
    let c: SatCase = serde_json::from_value(v.clone()).expect("bad SatCase");
    let prop: &'static str = match prop {
        "C01" => "C01",
        "C05" => "C05",
        _ => "C10",
    };
    circ::verif::set_event_hook(Some(sat_event));
    std::panic::set_hook(Box::new(|_| {}));
    for _ in 0..c.align {
        round();
    }
    let mut rep = Report::default();
    let count = count_of(&c);
    rep.count("count_log2", (usize::BITS - count.leading_zeros()) as u64);
    match c.mode {
        0 => {
            rep.label("bulk-iterator-with-huge-count");
            let made = std::panic::catch_unwind(|| Rc::new_many_iter(SNode { v: 0x5A7 }, count));
            let mut it = match made {
                Err(_) => {
                    // rejected: the object was passed by value and must simply have been dropped
                    rounds(8);
                    if DROPPED.load(SeqCst) > 1 || FREED.load(SeqCst) > 1 {
                        fail(prop, "rejected-but-dropped-twice", format!("new_many_iter(_, {}) panicked and the payload was dropped {} times", count, DROPPED.load(SeqCst)));
                    }
                    rep.label("rejected-by-panic");
                    rep.nontrivial = true;
                    return rep;
                }
                Ok(it) => it,
            };
            let m = (c.prefix as usize).min(count);
            let mut taken: Vec<Rc<SNode>> = Vec::new();
            for i in 0..m {
                match it.next() {
                    Some(r) => {
                        if r.is_null() {
                            fail(prop, "null-share", format!("share {} of new_many_iter(_, {}) is null", i, count));
                        }
                        if let Some(f) = taken.first() {
                            if !f.ptr_eq(&r) {
                                fail(prop, "distinct-objects", format!("shares of new_many_iter(_, {}) refer to different objects", count));
                            }
                        }
                        taken.push(r);
                    }
                    None => fail(prop, "iterator-short", format!("new_many_iter(_, {}) ended after {} shares", count, i)),
                }
            }
            let unyielded = count - m;
            // release the taken ones in the generated order; as long as any owner remains (taken
            // or not yet yielded) the object lives
            let mut sel = c.order.iter();
            while !taken.is_empty() {
                let s = *sel.next().unwrap_or(&0) as usize;
                let i = (s * taken.len()) >> 8;
                let r = taken.remove(i);
                drop(r);
                rounds(5);
                let owners = taken.len() + if unyielded > 0 { 1 } else { 0 };
                if owners > 0 && destructed() {
                    fail(
                        prop,
                        "destructed-while-owners-remain",
                        format!(
                            "new_many_iter(_, {}): after taking {} shares and dropping {} of them the object was destructed (pop_edges {}, drop {}) although {} taken and {} not yet yielded shares still own it",
                            count, m, m - taken.len(), POPPED.load(SeqCst), DROPPED.load(SeqCst), taken.len(), unyielded
                        ),
                    );
                }
                if let Some(f) = taken.first() {
                    if f.as_ref().map(|n| n.v) != Some(0x5A7) {
                        fail(prop, "payload-gone", format!("new_many_iter(_, {}): a remaining share no longer reads the payload", count));
                    }
                }
            }
            if unyielded > 0 && destructed() {
                fail(prop, "destructed-while-owners-remain", format!("new_many_iter(_, {}): destructed although the iterator still holds {} shares", count, unyielded));
            }
            // now the iterator's shares go
            if c.abort {
                let g = cs();
                it.abort(&g);
            } else {
                drop(it);
            }
            rounds(12);
            let (p, d, f) = (POPPED.load(SeqCst), DROPPED.load(SeqCst), FREED.load(SeqCst));
            if (p, d, f) != (1, 1, 1) {
                fail(
                    prop,
                    "not-destructed-exactly-once",
                    format!("new_many_iter(_, {}): after {} shares were taken and released and the iterator was {}, pop_edges ran {} times, drop {} times, {} blocks were freed (expected 1, 1, 1)", count, m, if c.abort { "aborted" } else { "dropped" }, p, d, f),
                );
            }
            rep.nontrivial = count >= (1 << 28);
            if m >= 2 {
                rep.label("two-or-more-shares-taken");
            }
        }
        1 => {
            rep.label("leaked-strong-clones");
            let a = Rc::new(SNode { v: 0x5A7 });
            let b = a.clone();
            // field value afterwards: 2 + k
            let k = count.wrapping_sub(2);
            let done = std::cell::Cell::new(0usize);
            let leaked = std::panic::catch_unwind(std::panic::AssertUnwindSafe(|| {
                for _ in 0..k {
                    std::mem::forget(a.clone());
                    done.set(done.get() + 1);
                }
            }));
            let mut rejected = leaked.is_err();
            if !rejected {
                match std::panic::catch_unwind(std::panic::AssertUnwindSafe(|| a.clone())) {
                    Ok(cl) => drop(cl),
                    Err(_) => rejected = true,
                }
            }
            if rejected {
                rep.label("rejected-by-panic");
                // a rejected call has no effect: two handles and `done` leaked clones own the object
                let strong = circ::verif::rc_counts(&a).map(|c| c.0 as usize);
                if strong != Some(2 + done.get()) {
                    fail(prop, "rejected-call-changed-the-count", format!("after a clone was refused (panic) the strong field reads {:?}, but 2 handles and {} leaked clones own the object", strong, done.get()));
                }
            }
            rounds(4);
            drop(b);
            rounds(8);
            // `a` and the leaked clones are owners for ever
            if destructed() || a.as_ref().map(|n| n.v) != Some(0x5A7) {
                fail(
                    prop,
                    "destructed-under-live-rc",
                    format!("an object with a live Rc and {} leaked clones was destructed (pop_edges {}, drop {}) after one more clone was created and dropped and another handle was dropped", k, POPPED.load(SeqCst), DROPPED.load(SeqCst)),
                );
            }
            let g = cs();
            let s = a.snapshot(&g);
            if s.as_ref().map(|n| n.v) != Some(0x5A7) {
                fail(prop, "payload-gone", "snapshot of a live Rc does not read the payload".to_string());
            }
            drop(g);
            std::mem::forget(a);
            rep.nontrivial = true;
        }
        _ => {
            rep.label("leaked-weak-clones");
            let a = Rc::new(SNode { v: 0x5A7 });
            let w = a.downgrade();
            // weak field now 2 (implicit share + w); afterwards 2 + k
            let k = count.wrapping_sub(2);
            let done = std::cell::Cell::new(0usize);
            let leaked = std::panic::catch_unwind(std::panic::AssertUnwindSafe(|| {
                for _ in 0..k {
                    std::mem::forget(w.clone());
                    done.set(done.get() + 1);
                }
            }));
            let mut rejected = leaked.is_err();
            if !rejected {
                match std::panic::catch_unwind(std::panic::AssertUnwindSafe(|| w.clone())) {
                    Ok(cl) => drop(cl),
                    Err(_) => rejected = true,
                }
            }
            if rejected {
                rep.label("rejected-by-panic");
                // (the weak field: the strong side's implicit share, `w`, and the leaked clones)
                let weak = circ::verif::rc_counts(&a).map(|c| c.1 as usize);
                if weak != Some(2 + done.get()) {
                    fail(prop, "rejected-call-changed-the-count", format!("after a Weak clone was refused (panic) the weak field reads {:?}, but the implicit share, one Weak and {} leaked clones hold the block", weak, done.get()));
                }
            }
            rounds(4);
            // a strong owner exists and nothing is being destructed: upgrades succeed
            match w.upgrade() {
                Some(u) => {
                    if !u.ptr_eq(&a) || u.as_ref().map(|n| n.v) != Some(0x5A7) {
                        fail(prop, "upgrade-wrong-object", "upgrade returned a different object".to_string());
                    }
                    drop(u);
                }
                None => fail(
                    prop,
                    "upgrade-fails-on-live-object",
                    format!("Weak::upgrade failed although a strong owner exists and no destruction has begun ({} leaked Weak clones); counts {:?}", k, circ::verif::rc_counts(&a)),
                ),
            }
            rounds(6);
            if destructed() || a.as_ref().map(|n| n.v) != Some(0x5A7) {
                fail(prop, "destructed-under-live-rc", format!("an object with a live Rc and {} leaked Weak clones was destructed", k));
            }
            std::mem::forget(w);
            std::mem::forget(a);
            rep.nontrivial = true;
        }
    }
    rep
}
