//! Choreography templates (DESIGN.md Appendix B): parameterised skeletons of the few-thread
//! scenarios the counting-layer properties are about. Parameters are generated and shrunk by
//! proptest; the output is an ordinary `RcCase`.

use proptest::prelude::*;
use proptest::strategy::BoxedStrategy;
use serde_json::Value;

use crate::rcgen::{C, TB, WC};
use circ::verif::site;

/// T1: two-owner cascade / stalled dropper.
pub fn t1() -> BoxedStrategy<Value> {
    (
        0u8..48,
        (0u8..2, any::<bool>(), 0usize..6, 0u8..3),
        (0u8..5, 0u8..7, any::<bool>(), any::<bool>(), 0u8..3),
        (any::<bool>(), 0u8..3, 0u8..4, any::<bool>()),
    )
        .prop_map(
            |(align, (link_mode, a_pinned, site_i, rel_kind), (j, k, unlink_first, b_releases, collector), (third_owner, late, p_early, prestamp))| {
                const SITES: [u32; 6] = [0, site::EPOCH_LOADED, site::DEC_S_LOAD, site::DEC_S_CAS, site::EPOCH_LOAD, site::LINK_SWAP];
                let park = SITES[site_i];
                let (a, b, c) = (0usize, 1usize, 2usize);
                let mut t = TB::new(3);
                t.prestamp = prestamp;
                // setup by A
                t.new_node(a, "X", None, None, 3, 40);
                if link_mode == 0 {
                    t.new_node(a, "P", Some("X"), None, 3, 0);
                    t.pin(a);
                } else {
                    t.new_node(a, "P", None, None, 3, 1);
                    t.pin(a);
                    t.clone_rc(a, "X", "X2");
                    t.store(a, C::Edge("P", 0), Some("X2"), 0);
                }
                t.store(a, C::Root(0), Some("P"), 0);
                t.clone_rc(a, "X", "Xc");
                t.store(a, C::Root(1), Some("Xc"), 0);
                if third_owner {
                    t.clone_rc(a, "X", "X3");
                    t.store(a, C::Root(2), Some("X3"), 0);
                }
                t.unpin(a, 0);
                t.run(a);
                // 0. optionally P is unlinked some epochs before the dropper starts
                if p_early > 0 {
                    t.swap_null(c, C::Root(0), "P");
                    t.drop_rc(c, "P");
                    t.advance(c, p_early - 1);
                    t.run(c);
                }
                // 1. A starts releasing its share of X and is parked inside
                if a_pinned {
                    t.pin(a);
                    t.run(a);
                }
                match rel_kind {
                    0 => t.drop_rc(a, "X"),
                    1 => {
                        if !a_pinned {
                            t.pin(a);
                            t.run(a);
                        }
                        t.finalize(a, "X", 0)
                    }
                    _ => {
                        // release by overwriting a cell that holds it
                        if !a_pinned {
                            t.pin(a);
                        }
                        t.store(a, C::Root(3), Some("X"), 0);
                        t.run(a);
                        t.store(a, C::Root(3), None, 0);
                    }
                }
                t.run_until_site(a, park, 1);
                let unlink = |t: &mut TB| {
                    if p_early == 0 {
                        t.swap_null(c, C::Root(0), "P");
                        t.drop_rc(c, "P");
                    }
                    t.advance(c, j);
                    t.run(c);
                };
                let read = |t: &mut TB| {
                    t.pin(b);
                    t.load(b, C::Root(1), 0, "s");
                    t.run(b);
                    let r = if b_releases { b } else { c };
                    t.swap_null(r, C::Root(1), "Xo");
                    t.drop_rc(r, "Xo");
                    t.run(r);
                };
                if unlink_first {
                    unlink(&mut t);
                    read(&mut t);
                } else {
                    read(&mut t);
                    unlink(&mut t);
                }
                // 4. A resumes
                if late == 0 {
                    if a_pinned || rel_kind != 0 {
                        t.unpin(a, 0);
                    }
                    t.run(a);
                }
                // 5. collection
                let col = match collector {
                    0 => c,
                    1 => a,
                    _ => c,
                };
                if col == a && late != 0 {
                    t.advance(c, k);
                    t.run(c);
                } else {
                    t.advance(col, k);
                    t.run(col);
                }
                // 6. the reader uses its snapshot
                t.deref_s(b, "s");
                t.counted(b, "s", "Xb");
                t.deref(b, "Xb");
                t.run(b);
                if late != 0 {
                    if a_pinned || rel_kind != 0 {
                        t.unpin(a, 0);
                    }
                    t.run(a);
                    t.advance(c, late);
                    t.run(c);
                    t.deref_s(b, "s");
                    t.run(b);
                }
                t.unpin(b, 0);
                t.drop_rc(b, "Xb");
                t.run(b);
                t.advance(c, 4);
                t.run(c);
                t.finish(align, "T1")
            },
        )
        .boxed()
}

/// T2: upgrade vs. last drop.
pub fn t2() -> BoxedStrategy<Value> {
    (
        0u8..48,
        (0u8..4, 0usize..6, 0u8..5, 0u8..14, 0u8..9, 0u8..4),
        (any::<bool>(), 0usize..3, any::<bool>(), 0u8..3),
        (0usize..5, 1u32..3, 0u8..3),
    )
        .prop_map(|(align, (a_r, site_i, b_r, c_r, keep, d_r), (via_snapshot, td_site_i, second_weak, rival), (co_site_i, co_nth, co_resume))| {
            // optional co-owner D whose release of its own Rc overlaps T's last drop
            const CO_SITES: [u32; 5] = [0, site::DEC_S_LOAD, site::DEC_S_CAS, site::EPOCH_LOADED, site::EPOCH_LOAD];
            let co_park = CO_SITES[co_site_i];
            const SITES: [u32; 6] = [0, site::INC_S_1, site::INC_S_2, site::IND_CAS, site::IND_LOAD, site::EPOCH_LOADED];
            const TD_SITES: [u32; 3] = [0, site::TD_LOAD, site::TD_CAS];
            let park = SITES[site_i];
            let td_park = TD_SITES[td_site_i];
            let (t0, u, u2, dd) = (0usize, 1usize, 2usize, 3usize);
            let mut t = TB::new(4);
            t.new_node(t0, "X", None, None, 3, 10);
            t.downgrade(t0, "X", "w");
            t.pin(t0);
            t.wstore(t0, WC::Root(0), Some("w"), 0);
            if co_park != 0 {
                t.clone_rc(t0, "X", "Xd");
                t.store(t0, C::Root(0), Some("Xd"), 0);
            }
            t.unpin(t0, 0);
            t.run(t0);
            if co_park != 0 {
                t.pin(dd);
                t.load(dd, C::Root(0), 0, "sx");
                t.counted(dd, "sx", "X");
                t.unpin(dd, 0);
                t.run(dd);
                t.swap_null(t0, C::Root(0), "Xs");
                t.drop_rc(t0, "Xs");
                t.run(t0);
                // D starts releasing its reference and is parked inside; once resumed it also
                // hands its local bag over (otherwise its deferred attempt would sit there until
                // D exits at the very end)
                t.drop_rc(dd, "X");
                t.run_until_site(dd, co_park, co_nth);
                t.advance(dd, 1);
            }
            if rival > 0 {
                t.pin(u2);
                t.wload(u2, WC::Root(0), 0, "ws");
                t.wcounted(u2, "ws", "w");
                t.unpin(u2, 0);
                t.run(u2);
            }
            t.pin(u);
            t.wload(u, WC::Root(0), 0, "ws");
            t.wcounted(u, "ws", "w");
            if second_weak {
                t.wclone(u, "w", "w2");
            }
            t.unpin(u, 0);
            t.run(u);
            // 1. last strong drop
            t.drop_rc(t0, "X");
            if co_park != 0 && co_resume == 0 {
                t.run(t0);
                t.run(dd);
            }
            t.advance(t0, a_r);
            t.run(t0);
            if co_park != 0 && co_resume == 1 {
                t.run(dd);
            }
            // 2. upgrade, parked inside
            if via_snapshot {
                t.pin(u);
                t.wsnapshot(u, "w", 0, "ws");
                t.run(u);
                t.wupgrade(u, "ws", true, "s");
                t.run_until_site(u, park, 1);
            } else {
                t.upgrade(u, "w", true, "Xu");
                t.run_until_site(u, park, 1);
            }
            // 2b. optionally a rival upgrade (or clone+drop of the result) completes meanwhile
            if rival > 0 {
                t.upgrade(u2, "w", true, "Xr");
                if rival == 2 {
                    t.drop_rc(u2, "Xr");
                }
                t.run(u2);
            }
            if co_park != 0 && co_resume == 2 {
                t.run(dd);
            }
            // 3. the owner's side collects (possibly itself parked inside try_destruct)
            t.advance(t0, b_r);
            if td_park != 0 {
                t.run_until_site(t0, td_park, 1);
            } else {
                t.run(t0);
            }
            // 4. upgrade finishes
            if via_snapshot {
                t.counted(u, "s", "Xu");
                t.deref_s(u, "s");
                t.unpin(u, 0);
            }
            t.run(u);
            // 5.
            t.advance(t0, c_r);
            t.run(t0);
            // 6. use and keep
            t.deref(u, "Xu");
            t.run(u);
            t.advance(t0, keep);
            t.run(t0);
            t.deref(u, "Xu");
            t.drop_rc(u, "Xu");
            t.run(u);
            // 7.
            t.advance(t0, d_r * 3);
            t.run(t0);
            t.upgrade(u, "w", false, "Xv");
            t.raw(u, crate::rcworld::K::Deref, 0, 0, 0);
            t.raw(u, crate::rcworld::K::Drop, 0, 0, 0);
            t.advance(u, 5);
            t.upgrade(u, "w", false, "Xv");
            t.run(u);
            if rival == 1 {
                t.deref(u2, "Xr");
                t.drop_rc(u2, "Xr");
                t.run(u2);
            }
            t.finish(align, "T2")
        })
        .boxed()
}

/// T3: reader on a chain with Harris-style unlink.
pub fn t3() -> BoxedStrategy<Value> {
    (
        0u8..48,
        (2u8..6, 0u8..5, 0u8..4, 1u8..3),
        (0u8..5, 0u8..6, any::<bool>(), 0u8..3, 0usize..4),
    )
        .prop_map(|(align, (n, walk, i, m), (j, k, counted_desired, band, site_i))| {
            const SITES: [u32; 4] = [0, site::LINK_LOAD, site::LINK_CAS, site::EPOCH_LOADED];
            let (a, b, c) = (0usize, 1usize, 2usize);
            let mut t = TB::new(3);
            // chain N0 -> N1 -> ... -> Nn under root0, built back to front by A; links are stamped
            // (stores under a guard) in `band`+1 consecutive epochs
            let names: Vec<String> = (0..=n).map(|x| format!("N{}", x)).collect();
            t.pin(a);
            for x in (0..=n as usize).rev() {
                t.new_node(a, &names[x], None, None, 3, (x as u8) * 2);
                if x < n as usize {
                    // newest slot is names[x]; its successor was stored nowhere yet: keep Rc of x+1
                    t.store(a, C::Edge(Box::leak(names[x].clone().into_boxed_str()), 0), Some(&names[x + 1]), 0);
                }
                if band > 0 && x % 2 == 0 {
                    t.unpin(a, 0);
                    t.advance(a, 1);
                    t.pin(a);
                }
            }
            t.store(a, C::Root(0), Some("N0"), 0);
            t.unpin(a, 0);
            t.run(a);
            // B walks `walk` links under one guard and stops
            t.pin(b);
            t.load(b, C::Root(0), 0, "s0");
            let mut cur = "s0".to_string();
            for d in 0..walk.min(n) {
                let nm = format!("s{}", d + 1);
                t.load(b, C::Edge(Box::leak(cur.clone().into_boxed_str()), 0), 0, &nm);
                cur = nm;
            }
            t.run_until_site(b, SITES[site_i], 1);
            // A unlinks N(i+1)..N(i+m) by CAS on the edge of Ni
            let i = (i as usize).min(n as usize - 1);
            let tgt = (i + m as usize + 1).min(n as usize + 1);
            t.pin(a);
            t.load(a, C::Root(0), 0, "a0");
            let mut acur = "a0".to_string();
            for d in 0..i {
                let nm = format!("a{}", d + 1);
                t.load(a, C::Edge(Box::leak(acur.clone().into_boxed_str()), 0), 0, &nm);
                acur = nm;
            }
            // acur = Ni ; expected = N(i+1) ; desired = counted N(tgt) or null
            let holder: &'static str = Box::leak(acur.clone().into_boxed_str());
            t.load(a, C::Edge(holder, 0), 0, "exp");
            let mut w = "exp".to_string();
            for d in (i + 1)..tgt {
                let nm = format!("w{}", d);
                t.load(a, C::Edge(Box::leak(w.clone().into_boxed_str()), 0), 0, &nm);
                w = nm;
            }
            if counted_desired && tgt <= n as usize {
                t.counted(a, &w, "des");
                t.cas(a, C::Edge(holder, 0), Some("exp"), Some("des"), true, "old", "cur");
            } else {
                t.cas(a, C::Edge(holder, 0), Some("exp"), None, true, "old", "cur");
            }
            t.drop_rc(a, "old");
            t.unpin(a, 0);
            t.advance(a, j);
            t.run(a);
            t.advance(c, k);
            t.run(c);
            // B continues through whatever it holds, including unlinked nodes
            t.run(b);
            for d in 0..=walk.min(n) {
                t.deref_s(b, &format!("s{}", d));
            }
            let nm = "sx";
            t.load(b, C::Edge(Box::leak(cur.clone().into_boxed_str()), 0), 0, nm);
            t.deref_s(b, nm);
            t.counted(b, nm, "Bx");
            t.deref(b, "Bx");
            t.unpin(b, 0);
            t.drop_rc(b, "Bx");
            t.run(b);
            t.advance(c, 5);
            t.run(c);
            t.finish(align, "T3")
        })
        .boxed()
}

/// T4: weak upgrade racing a cascade. R0 -> P -> X (-> Y), a Weak to X in U.
pub fn t4() -> BoxedStrategy<Value> {
    (
        0u8..48,
        (0u8..6, 0usize..7, 0u8..3, any::<bool>(), any::<bool>()),
        (0u8..5, 0u8..4, 0usize..6, any::<bool>(), any::<bool>()),
    )
        .prop_map(|(align, (j, csite_i, place, via_snapshot, with_y), (k, wait, usite_i, restamp, prestamp))| {
            const CSITES: [u32; 7] = [0, site::CASC_CAS, site::CASC_STATE, site::CASC_MARK_CAS, site::CASC_LOAD, site::TD_CAS, site::CASC_WEAKED];
            const USITES: [u32; 6] = [0, site::INC_S_1, site::INC_S_2, site::IND_LOAD, site::IND_CAS, site::DEC_S_CAS];
            let (a, u, c) = (0usize, 1usize, 2usize);
            let mut t = TB::new(3);
            t.prestamp = prestamp;
            if with_y {
                t.new_node(a, "Y", None, None, 3, 50);
                t.new_node(a, "X", Some("Y"), None, 3, 0);
                t.drop_rc(a, "Y");
            } else {
                t.new_node(a, "X", None, None, 3, 40);
            }
            t.downgrade(a, "X", "w");
            t.new_node(a, "P", Some("X"), None, 3, 0);
            t.drop_rc(a, "X");
            t.pin(a);
            t.wstore(a, WC::Root(0), Some("w"), 0);
            t.store(a, C::Root(0), Some("P"), 0);
            t.unpin(a, 0);
            for _ in 0..wait {
                t.advance(a, 1);
            }
            t.run(a);
            t.pin(u);
            t.wload(u, WC::Root(0), 0, "ws");
            t.wcounted(u, "ws", "w");
            t.unpin(u, 0);
            t.run(u);
            if restamp {
                // an upgrade + drop re-stamps X shortly before the cascade looks at it
                t.upgrade(u, "w", true, "Xr");
                t.drop_rc(u, "Xr");
                t.run(u);
            }
            // A unlinks P
            t.swap_null(a, C::Root(0), "P");
            t.drop_rc(a, "P");
            t.advance(a, j);
            t.run(a);
            let upg = |t: &mut TB, park: u32| {
                if via_snapshot {
                    t.pin(u);
                    t.wsnapshot(u, "w", 0, "ws");
                    t.run(u);
                    t.wupgrade(u, "ws", true, "s");
                    t.run_until_site(u, park, 1);
                } else {
                    t.upgrade(u, "w", true, "Xu");
                    t.run_until_site(u, park, 1);
                }
            };
            let fin = |t: &mut TB| {
                if via_snapshot {
                    t.deref_s(u, "s");
                    t.counted(u, "s", "Xu");
                    t.unpin(u, 0);
                }
                t.deref(u, "Xu");
                t.run(u);
            };
            match place {
                0 => {
                    // before the collection
                    upg(&mut t, USITES[usite_i]);
                    t.advance(c, 4 + k);
                    t.run(c);
                    fin(&mut t);
                }
                1 => {
                    // during: the collector is parked inside the cascade
                    t.advance(c, 4 + k);
                    t.run_until_site(c, CSITES[csite_i], 1);
                    upg(&mut t, 0);
                    fin(&mut t);
                    t.run(c);
                }
                _ => {
                    // after
                    t.advance(c, 4 + k);
                    t.run(c);
                    upg(&mut t, 0);
                    fin(&mut t);
                }
            }
            t.advance(c, 6);
            t.run(c);
            t.deref(u, "Xu");
            t.upgrade(u, "w", false, "Xv");
            t.raw(u, crate::rcworld::K::Deref, 1, 0, 0);
            t.run(u);
            t.advance(c, 3);
            t.run(c);
            t.finish(align, "T4")
        })
        .boxed()
}

/// T5: install into an already unlinked node (the `get_mut` comment in strong.rs).
pub fn t5() -> BoxedStrategy<Value> {
    (
        0u8..48,
        (0u8..4, 0u8..4, 0u8..5, 0u8..3, any::<bool>()),
        (0usize..4, 0u8..3),
    )
        .prop_map(|(align, (j1, j2, k, how, t3_keeps_snapshot), (site_i, late))| {
            const SITES: [u32; 4] = [0, site::LINK_SWAP, site::EPOCH_LOADED, site::LINK_CAS];
            let (t1, t2, t3) = (0usize, 1usize, 2usize);
            let mut t = TB::new(3);
            // N1 under root0
            t.new_node(t2, "N1", None, None, 3, 2);
            t.pin(t2);
            t.store(t2, C::Root(0), Some("N1"), 0);
            t.unpin(t2, 0);
            t.run(t2);
            // T1 pins and holds a snapshot of N1
            t.pin(t1);
            t.load(t1, C::Root(0), 0, "n1");
            t.run(t1);
            // T2 unlinks N1
            t.swap_null(t2, C::Root(0), "N1");
            t.drop_rc(t2, "N1");
            t.advance(t2, j1);
            t.run(t2);
            // T3 pins later, creates N2 (higher rank), keeps a snapshot, passes the Rc through root1
            t.pin(t3);
            t.new_node(t3, "N2", None, None, 3, 30);
            if t3_keeps_snapshot {
                t.rc_snapshot(t3, "N2", 0, "n2");
            }
            t.store(t3, C::Root(1), Some("N2"), 0);
            if t3_keeps_snapshot {
                // T3 later reads it back from where T1 put it
            }
            t.run(t3);
            t.advance(t2, j2);
            t.run(t2);
            // T1 moves it into N1.edge0 and unpins
            t.swap_null(t1, C::Root(1), "N2");
            match how {
                0 => t.store(t1, C::Edge("n1", 0), Some("N2"), 0),
                1 => {
                    t.swap(t1, C::Edge("n1", 0), "N2", "0old");
                }
                _ => t.cas(t1, C::Edge("n1", 0), None, Some("N2"), true, "0prev", "cur"),
            }
            t.run_until_site(t1, SITES[site_i], 1);
            if late > 0 {
                t.advance(t2, late);
                t.run(t2);
            }
            t.unpin(t1, 0);
            t.run(t1);
            // collection
            t.advance(t2, k);
            t.run(t2);
            // T3 uses N2
            if t3_keeps_snapshot {
                t.deref_s(t3, "n2");
                t.counted(t3, "n2", "N2c");
                t.deref(t3, "N2c");
            }
            t.unpin(t3, 0);
            t.run(t3);
            t.advance(t2, 6);
            t.run(t2);
            t.finish(align, "T5")
        })
        .boxed()
}

/// T6: zero-weak re-count, with an optional continuation in which the re-counted Weak is
/// published, read by a second reader and dropped again.
pub fn t6() -> BoxedStrategy<Value> {
    (
        0u8..48,
        (0u8..5, 0usize..6, 0u8..4, 0u8..5, any::<bool>()),
        (any::<bool>(), 0u8..4, 0u8..4, any::<bool>(), 0usize..4),
    )
        .prop_map(|(align, (j, site_i, mid, k, destructed_first), (cont, j2, k2, r2_upgrade, dsite_i))| {
            const SITES: [u32; 6] = [0, site::INC_W_FA1, site::INC_W_FA2, site::INC_W_LOAD, site::INC_W_CAS, site::DEC_W];
            const DSITES: [u32; 4] = [0, site::DEC_W, site::TDA_LOAD, site::EPOCH_LOADED];
            let (t0, r, r2) = (0usize, 1usize, 2usize);
            let mut t = TB::new(3);
            t.new_node(t0, "X", None, None, 3, 10);
            t.downgrade(t0, "X", "w");
            t.pin(t0);
            t.wstore(t0, WC::Root(0), Some("w"), 0);
            t.unpin(t0, 0);
            if destructed_first {
                t.drop_rc(t0, "X");
                t.advance(t0, 5);
            }
            t.run(t0);
            // R: pin, load the weak pointer
            t.pin(r);
            t.wload(r, WC::Root(0), 0, "ws");
            t.run(r);
            // T: remove and drop the last Weak (and the last Rc, if still there)
            if !destructed_first {
                t.drop_rc(t0, "X");
            }
            t.wswap(t0, WC::Root(0), None, "wl");
            t.wdrop(t0, "wl");
            t.run_until_site(t0, DSITES[dsite_i], 1);
            t.advance(r2, j);
            t.run(r2);
            // R re-counts from its snapshot, parked inside
            t.wcounted(r, "ws", "wr");
            t.run_until_site(r, SITES[site_i], 1);
            t.run(t0);
            t.advance(r2, mid);
            t.run(r2);
            t.run(r);
            if cont {
                // publish the re-counted Weak, leave the critical section
                t.wstore(r, WC::Root(1), Some("wr"), 0);
                t.unpin(r, 0);
                t.run(r);
                t.advance(t0, j2);
                t.run(t0);
                // second reader
                t.pin(r2);
                t.wload(r2, WC::Root(1), 0, "ws2");
                t.run(r2);
                t.wswap(t0, WC::Root(1), None, "wl2");
                t.wdrop(t0, "wl2");
                t.advance(t0, k2);
                t.run(t0);
                if r2_upgrade {
                    t.wupgrade(r2, "ws2", false, "sx");
                }
                t.wcounted(r2, "ws2", "wr2");
                t.raw(r2, crate::rcworld::K::Upgrade, 0, 0, 0);
                t.unpin(r2, 0);
                t.wdrop(r2, "wr2");
                t.run(r2);
            } else {
                t.unpin(r, 0);
                t.run(r);
                t.advance(t0, k);
                t.run(t0);
                t.upgrade(r, "wr", false, "Xn");
                t.wclone(r, "wr", "wr2");
                t.wdrop(r, "wr");
                t.advance(r, 3);
                t.wdrop(r, "wr2");
                t.run(r);
            }
            t.advance(t0, 6);
            t.run(t0);
            t.finish(align, "T6")
        })
        .boxed()
}

/// T7: restamp then CAS (strong cells), optionally with a concurrent re-stamp between two
/// hardware CAS attempts of the same call.
pub fn t7() -> BoxedStrategy<Value> {
    (
        0u8..48,
        (0u8..5, 0u8..3, 0u8..8, 0u8..4, any::<bool>()),
        (0u32..4, 0u8..3, 0u8..3, any::<bool>(), 0u8..3),
    )
        .prop_map(|(align, (k, how, tag, cell_sel, desired_null), (nth, k2, how2, tagged_expected, cas_kind))| {
            let (a, b) = (0usize, 1usize);
            let mut t = TB::new(2);
            t.new_node(a, "X", None, None, 3, 20);
            t.new_node(a, "D", None, None, 3, 30);
            if tag > 0 {
                t.raw(a, crate::rcworld::K::RcTag, 0, tag, 0);
            }
            t.pin(a);
            t.clone_rc(a, "X", "Xc");
            t.store(a, C::Root(cell_sel % 2), Some("Xc"), 0);
            // expected: loaded from the cell now, or a snapshot of the Rc (which carries no stamp)
            if tagged_expected {
                t.rc_snapshot(a, "X", 0, "e");
            } else {
                t.load(a, C::Root(cell_sel % 2), 0, "e");
            }
            t.run(a);
            // the same pointer (same tag) is written again at a later epoch
            let restamp = |t: &mut TB, th: usize, rounds: u8, how: u8| {
                t.advance(th, rounds);
                t.pin(th);
                t.load(th, C::Root(cell_sel % 2), 0, "c");
                match how {
                    0 => {
                        t.counted(th, "c", "Cc");
                        t.store(th, C::Root(cell_sel % 2), Some("Cc"), 0);
                    }
                    1 => t.cas_tag(th, C::Root(cell_sel % 2), "c", tag, "c2"),
                    _ => {
                        t.counted(th, "c", "Cc");
                        t.swap(th, C::Root(cell_sel % 2), "Cc", "Cold");
                        t.drop_rc(th, "Cold");
                    }
                }
                t.unpin(th, 0);
                t.run(th);
            };
            restamp(&mut t, b, k, how);
            // CAS with the old expected: must succeed; optionally parked before its nth hardware CAS
            match cas_kind {
                0 => t.cas(a, C::Root(cell_sel % 2), Some("e"), if desired_null { None } else { Some("D") }, true, "prev", "cur"),
                1 => t.cas_weak(a, C::Root(cell_sel % 2), Some("e"), if desired_null { None } else { Some("D") }, true, "prev", "cur"),
                _ => {
                    t.cas_tag(a, C::Root(cell_sel % 2), "e", tag.wrapping_add(1), "r");
                    t.clone_rc(a, "X", "prev");
                }
            }
            if nth > 0 {
                t.run_until_site(a, site::LINK_CAS, nth);
                restamp(&mut t, b, k2, how2);
            }
            t.run(a);
            t.deref(a, "prev");
            t.unpin(a, 0);
            t.run(a);
            t.advance(b, 4);
            t.run(b);
            t.finish(align, "T7")
        })
        .boxed()
}

/// T7w: the same for AtomicWeak, the expected WeakSnapshot coming from all three sources.
pub fn t7w() -> BoxedStrategy<Value> {
    (
        0u8..48,
        (0u8..5, 0u8..3, 0u8..8, 0u8..3, any::<bool>()),
        (0u32..3, 0u8..3, any::<bool>()),
    )
        .prop_map(|(align, (k, source, tag, how, desired_null), (nth, k2, tag_cas))| {
            let (a, b) = (0usize, 1usize);
            let mut t = TB::new(2);
            t.new_node(a, "X", None, None, 3, 20);
            t.new_node(a, "D", None, None, 3, 30);
            if tag > 0 {
                t.raw(a, crate::rcworld::K::RcTag, 0, tag, 0);
            }
            t.downgrade(a, "X", "w");
            t.downgrade(a, "D", "wd");
            t.pin(a);
            t.wclone(a, "w", "wc");
            t.wstore(a, WC::Root(0), Some("wc"), 0);
            // also keep X in a strong cell written now (its content carries this epoch's stamp)
            t.clone_rc(a, "X", "Xc");
            t.store(a, C::Root(0), Some("Xc"), 0);
            t.unpin(a, 0);
            t.run(a);
            t.advance(b, k);
            t.run(b);
            t.pin(a);
            match source {
                0 => t.wload(a, WC::Root(0), 0, "e"),
                1 => {
                    // downgraded from a Snapshot loaded from an AtomicRc written at another epoch
                    t.clone_rc(a, "X", "Xd");
                    t.store(a, C::Root(1), Some("Xd"), 0);
                    t.load(a, C::Root(1), 0, "sx");
                    t.snap_downgrade(a, "sx", "e");
                }
                _ => t.wsnapshot(a, "w", 0, "e"),
            }
            t.run(a);
            if how > 0 {
                // re-write the same weak pointer through another path
                t.pin(b);
                t.wload(b, WC::Root(0), 0, "c");
                t.wcounted(b, "c", "Cc");
                if how == 1 {
                    t.wstore(b, WC::Root(0), Some("Cc"), 0);
                } else {
                    t.wswap(b, WC::Root(0), Some("Cc"), "Cold");
                    t.wdrop(b, "Cold");
                }
                t.unpin(b, 0);
                t.run(b);
            }
            if tag_cas {
                t.wcas_tag(a, WC::Root(0), "e", tag.wrapping_add(k2), "r");
            } else if k % 2 == 1 {
                t.wcas_weak(a, WC::Root(0), Some("e"), if desired_null { None } else { Some("wd") }, true, "prev", "cur");
            } else {
                t.wcas(a, WC::Root(0), Some("e"), if desired_null { None } else { Some("wd") }, true, "prev", "cur");
            }
            if nth > 0 {
                t.run_until_site(a, site::WLINK_CAS, nth);
                // meanwhile the same weak pointer is installed again, carrying other epoch bits:
                // either those of a strong cell written right now, or none (a plain downgrade)
                t.advance(b, k2);
                t.pin(b);
                if how % 2 == 0 {
                    t.load(b, C::Root(0), 0, "bx");
                    t.counted(b, "bx", "Bx");
                    t.store(b, C::Root(0), Some("Bx"), 0);
                    t.load(b, C::Root(0), 0, "bx2");
                    t.snap_downgrade(b, "bx2", "bws");
                    t.wcounted(b, "bws", "Bw");
                } else {
                    t.load(b, C::Root(0), 0, "bx");
                    t.counted(b, "bx", "Bx");
                    t.raw(b, crate::rcworld::K::RcTag, 0, tag, 0);
                    t.downgrade(b, "Bx", "Bw");
                    t.drop_rc(b, "Bx");
                }
                t.wswap(b, WC::Root(0), Some("Bw"), "Bold");
                t.wdrop(b, "Bold");
                t.unpin(b, 0);
                t.run(b);
            }
            t.run(a);
            t.unpin(a, 0);
            t.run(a);
            t.advance(b, 4);
            t.run(b);
            t.finish(align, "T7w")
        })
        .boxed()
}

/// T8: a destructor that holds a guard and a Snapshot while it releases bursts of references
/// (run by a collecting thread), racing with the unlinking of the object it looks at.
pub fn t8() -> BoxedStrategy<Value> {
    (
        0u8..48,
        (0u8..4, 0u32..1500, 0u32..1200, 0u32..1200),
        (0u8..4, 0u8..4, 0u8..4, any::<bool>()),
    )
        .prop_map(|(align, (mode, n1, n2, n3), (k1, k2, k3, b_pinned_load))| {
            let (a, b) = (0usize, 1usize);
            let mut t = TB::new(2);
            t.new_node(a, "X", None, None, 3, 40);
            t.pin(a);
            t.store(a, C::Root(1), Some("X"), 0);
            t.unpin(a, 0);
            // Z's destructor: pin, load root1, bursts, use the snapshot, unpin
            let dact = 1 + 4 * (mode % 4);
            t.new_node_dact(a, "Z", dact, 10);
            t.drop_rc(a, "Z");
            t.run(a);
            // A collects; Z's destructor runs inside this op; A is parked somewhere in it
            t.advance(a, 6);
            t.until_steps(a, n1);
            // B unlinks X and collects
            if b_pinned_load {
                t.pin(b);
                t.load(b, C::Root(1), 0, "bx");
                t.unpin(b, 0);
            }
            t.swap_null(b, C::Root(1), "X");
            t.drop_rc(b, "X");
            t.advance(b, k1);
            t.run(b);
            t.until_steps(a, n2);
            t.advance(b, k2);
            t.run(b);
            t.until_steps(a, n3);
            t.advance(b, k3 + 1);
            t.run(b);
            t.until_end(a);
            t.advance(b, 4);
            t.run(b);
            t.finish(align, "T8")
        })
        .boxed()
}

/// T9: a pointer is moved from a live cell into a node that dies by *cascade* (not as a root) with
/// a stamp that lags by one epoch; a reader loaded the pointer from the live cell before the move.
/// In this situation the link's timestamp is the only thing that protects the reader.
/// G.edge0 -> H (H.edge0 empty), H also owned by hA (writer W) and hB (lagging dropper T2);
/// root1 -> P. M = setup and collector.
pub fn t9() -> BoxedStrategy<Value> {
    (
        0u8..48,
        (0usize..5, 0u8..3, 0u8..3, 0u8..3, 0u8..7),
        (0u8..4, any::<bool>(), 0u8..8, any::<bool>(), any::<bool>(), 0u8..3),
        any::<bool>(),
    )
        .prop_map(|(align, (site_i, a, b, c, settle), (install, retag, tag, g_finalize, link_stamped, t2_resume), prestamp)| {
            const SITES: [u32; 5] = [site::DEC_S_LOAD, site::EPOCH_LOADED, site::DEC_S_CAS, 0, site::EPOCH_LOAD];
            let park = SITES[site_i];
            let (m, t2, w, r) = (0usize, 1usize, 2usize, 3usize);
            let mut t = TB::new(4);
            t.prestamp = prestamp;
            // setup by M
            t.new_node(m, "P", None, None, 3, 60);
            t.new_node(m, "H", None, None, 3, 20);
            t.pin(m);
            t.store(m, C::Root(1), Some("P"), 0);
            t.clone_rc(m, "H", "hA");
            t.store(m, C::Root(2), Some("hA"), 0);
            t.clone_rc(m, "H", "hB");
            t.store(m, C::Root(3), Some("hB"), 0);
            if link_stamped {
                t.new_node(m, "G", None, None, 3, 1);
                t.store(m, C::Edge("G", 0), Some("H"), 0);
            } else {
                t.new_node(m, "G", Some("H"), None, 3, 0);
                t.drop_rc(m, "H");
            }
            t.unpin(m, 0);
            t.advance(m, settle);
            t.run(m);
            // hand hA to W and hB to T2
            t.pin(w);
            t.load(w, C::Root(2), 0, "x");
            t.counted(w, "x", "hA");
            t.unpin(w, 0);
            t.run(w);
            t.pin(t2);
            t.load(t2, C::Root(3), 0, "x");
            t.counted(t2, "x", "hB");
            t.unpin(t2, 0);
            t.run(t2);
            t.pin(m);
            t.store(m, C::Root(2), None, 0);
            t.store(m, C::Root(3), None, 0);
            t.unpin(m, 0);
            t.advance(m, 3);
            t.run(m);
            // e0: T2 starts releasing hB inside a critical section and is parked after the epoch read
            t.pin(t2);
            t.run(t2);
            t.finalize(t2, "hB", 0);
            t.run_until_site(t2, park, 1);
            // M releases G (its destruction is sealed at e0)
            if g_finalize {
                t.pin(m);
                t.finalize(m, "G", 0);
                t.raw(m, crate::rcworld::K::Flush, 0, 0, 0);
                t.unpin(m, 0);
            } else {
                t.drop_rc(m, "G");
                t.advance(m, 0);
            }
            t.run(m);
            t.advance(m, a);
            t.run(m);
            // W: pins, keeps a Snapshot of H, gives up its Rc
            t.pin(w);
            t.rc_snapshot(w, "hA", 0, "sH");
            t.drop_rc(w, "hA");
            t.run(w);
            if t2_resume == 0 {
                t.unpin(t2, 0);
                t.run(t2);
            }
            t.advance(m, b);
            t.run(m);
            if t2_resume == 1 {
                t.unpin(t2, 0);
                t.run(t2);
            }
            // R pins and loads P from the live cell
            t.pin(r);
            t.load(r, C::Root(1), 0, "sP");
            t.run(r);
            // W moves P from the live cell into H
            t.load(w, C::Root(1), 0, "e");
            t.swap_null(w, C::Root(1), "p");
            match install {
                0 => t.store(w, C::Edge("sH", 0), Some("p"), 0),
                1 => {
                    t.swap(w, C::Edge("sH", 0), "p", "0old");
                }
                2 => t.cas(w, C::Edge("sH", 0), None, Some("p"), true, "0prev", "cur"),
                _ => {
                    t.store(w, C::Edge("sH", 1), Some("p"), 0);
                }
            }
            if retag {
                // re-tag the link using the Snapshot loaded from the old location
                t.cas_tag(w, C::Edge("sH", if install == 3 { 1 } else { 0 }), "e", tag, "rt");
            }
            t.unpin(w, 0);
            t.run(w);
            if t2_resume == 2 {
                t.unpin(t2, 0);
                t.run(t2);
            }
            // collection: G as a root, H and P through the cascade
            t.advance(m, 1 + c);
            t.run(m);
            t.deref_s(r, "sP");
            t.counted(r, "sP", "Pr");
            t.deref(r, "Pr");
            t.unpin(r, 0);
            t.drop_rc(r, "Pr");
            t.run(r);
            t.advance(m, 5);
            t.run(m);
            t.finish(align, "T9")
        })
        .boxed()
}

/// T10: a long disposal. A.edge0 -> chain of L nodes, A.edge1 -> B, B also in root1. The collector
/// D destructs A and walks the chain (re-pinning every 128 nodes); in between a peer advances the
/// epoch; a reader then pins, loads B from root1 and unlinks it; D comes back to A's frame and
/// releases A.edge1.
pub fn t10() -> BoxedStrategy<Value> {
    (
        0u8..48,
        (prop_oneof![1 => 140u8..200, 3 => 200u8..=255], prop_oneof![1 => 0u32..1400, 2 => 0u32..400], prop_oneof![1 => 0u32..1400, 3 => 450u32..950], prop_oneof![1 => 0u32..1400, 3 => 450u32..950], prop_oneof![1 => 0u32..1400, 3 => 450u32..950]),
        (prop_oneof![1 => Just(0u8), 5 => 1u8..3], prop_oneof![1 => Just(0u8), 5 => 1u8..3], prop_oneof![1 => Just(0u8), 5 => 1u8..3], prop_oneof![1 => Just(0u8), 5 => 1u8..3], any::<bool>(), 0u8..6),
    )
        .prop_map(|(align, (half, s1, s2, s3, s4), (p1, p2, p3, p4, reader_upgrades, settle))| {
            let (d, m, p) = (0usize, 1usize, 2usize);
            let mut t = TB::new(3);
            t.prestamp = settle % 2 == 1;
            t.new_node(d, "B", None, None, 3, 63);
            t.downgrade(d, "B", "wB");
            t.new_chain(d, "C", half);
            t.new_node(d, "A", Some("C"), Some("B"), 3, 0);
            t.drop_rc(d, "C");
            t.pin(d);
            t.store(d, C::Root(1), Some("B"), 0);
            t.wstore(d, WC::Root(0), Some("wB"), 0);
            t.unpin(d, 0);
            t.advance(d, settle);
            t.drop_rc(d, "A");
            t.run(d);
            // D collects: A's destruction runs inside this op; D is parked repeatedly while it
            // walks the chain and the peer advances the epoch in between
            t.advance(d, 7);
            t.until_steps(d, 60 + s1);
            t.advance(p, p1);
            t.run(p);
            t.until_steps(d, s2);
            t.advance(p, p2);
            t.run(p);
            t.until_steps(d, s3);
            t.advance(p, p3);
            t.run(p);
            t.until_steps(d, s4);
            t.advance(p, p4);
            t.run(p);
            // the reader
            t.pin(m);
            if reader_upgrades {
                t.wload(m, WC::Root(0), 0, "ws");
                t.wupgrade(m, "ws", true, "sB");
            } else {
                t.load(m, C::Root(1), 0, "sB");
            }
            t.swap_null(m, C::Root(1), "Bm");
            t.drop_rc(m, "Bm");
            t.run(m);
            t.until_end(d);
            t.deref_s(m, "sB");
            t.counted(m, "sB", "Bc");
            t.deref(m, "Bc");
            t.unpin(m, 0);
            t.drop_rc(m, "Bc");
            t.run(m);
            t.advance(p, 5);
            t.run(p);
            t.finish(align, "T10")
        })
        .boxed()
}

/// T11: the recursion cap. A chain of 1026-1146 nodes is reclaimed in one disposal pass until the
/// pass stops at depth 1024 and hands the rest back to the collector; a Weak to a node 1021-1028
/// links from the head is upgraded (both ways) while the pass is parked at that very moment (or a
/// few steps around it), peers advance the epoch, the pass resumes.
pub fn t11() -> BoxedStrategy<Value> {
    (
        0u8..48,
        (0u8..60, 1u8..9, 0u8..5, 0u32..24, 0u8..3),
        (any::<bool>(), 0u8..3, 0u8..4, any::<bool>()),
    )
        .prop_map(|(align, (half, c, settle, jitter, park_kind), (via_snapshot, padv, when, hold))| {
            let (d, m, p) = (0usize, 1usize, 2usize);
            let mut t = TB::new(3);
            t.new_long_chain(d, "C", half, 4, c, "w");
            t.pin(d);
            t.wstore(d, WC::Root(0), Some("w"), 0);
            t.unpin(d, 0);
            t.advance(d, settle);
            t.run(d);
            t.pin(m);
            t.wload(m, WC::Root(0), 0, "ws");
            t.wcounted(m, "ws", "w");
            t.unpin(m, 0);
            t.run(m);
            t.drop_rc(d, "C");
            t.run(d);
            let upg = |t: &mut TB| {
                if via_snapshot {
                    t.pin(m);
                    t.wsnapshot(m, "w", 0, "ws2");
                    t.wupgrade(m, "ws2", true, "s");
                    t.deref_s(m, "s");
                    if hold {
                        t.run(m);
                    } else {
                        t.counted(m, "s", "X");
                        t.unpin(m, 0);
                        t.run(m);
                    }
                } else {
                    t.upgrade(m, "w", true, "X");
                    t.run(m);
                }
            };
            t.advance(d, 7);
            match when {
                0 => {
                    // before the pass starts
                    upg(&mut t);
                }
                _ => {
                    match park_kind {
                        0 => t.until_event(d, circ::verif::ev::REDEFER, 1),
                        1 => {
                            t.until_event(d, circ::verif::ev::REDEFER, 1);
                            t.until_steps(d, jitter);
                        }
                        _ => {
                            // shortly before the cap: 1020+ nodes disposed
                            t.until_event(d, circ::verif::ev::DISPOSE, 1016 + jitter);
                        }
                    }
                    upg(&mut t);
                }
            }
            t.advance(p, padv);
            t.run(p);
            t.until_end(d);
            if via_snapshot && hold {
                t.deref_s(m, "s");
                t.counted(m, "s", "X");
                t.unpin(m, 0);
            }
            t.deref(m, "X");
            t.run(m);
            t.advance(p, 5);
            t.run(p);
            t.deref(m, "X");
            t.drop_rc(m, "X");
            t.run(m);
            t.advance(p, 6);
            t.run(p);
            t.upgrade(m, "w", false, "Xv");
            t.run(m);
            t.finish(align, "T11")
        })
        .boxed()
}

/// T12: several retired parents release the same child one after the other. B is linked from 2-4
/// parent nodes that lose their last owner (gap) epochs before the reader arrives, and from 1-2
/// live cells. The reader loads B (or upgrades a weak pointer to it), a mutator unlinks the live
/// cells (fresh stamp on B, count still > 0), a collector reclaims the parents: every release but
/// the last is a non-final decrement by the disposal pass and must not lose the fresh stamp.
pub fn t12() -> BoxedStrategy<Value> {
    (
        0u8..48,
        (2usize..5, 0u8..5, 0u8..4, 1u8..5, 0u8..4),
        (0u8..3, any::<bool>(), 0u8..3, any::<bool>(), 0u8..3),
        any::<bool>(),
    )
        .prop_map(|(align, (np, gap, settle, k, live), (reader_kind, parents_after_read, split, m_pinned, late), prestamp)| {
            let (a, r, m) = (0usize, 1usize, 2usize);
            let mut t = TB::new(3);
            t.prestamp = prestamp;
            t.new_node(a, "B", None, None, 3, 63);
            t.downgrade(a, "B", "wB");
            // live = 0: B is owned by the parents' links only and can be reached through the weak
            // cell alone; 1, 2: also linked from live cells (3 counts as 1)
            let two_live = live == 2;
            let no_live = live == 0;
            let reader_kind = if no_live { 1 } else { reader_kind };
            t.pin(a);
            if !no_live {
                t.clone_rc(a, "B", "Bc");
                t.store(a, C::Root(1), Some("Bc"), 0);
            }
            if two_live {
                t.clone_rc(a, "B", "Bd");
                t.store(a, C::Root(2), Some("Bd"), 0);
            }
            t.wstore(a, WC::Root(0), Some("wB"), 0);
            t.unpin(a, 0);
            // the parents; `split` of them are retired only after the reader has arrived
            let early = np - (split as usize).min(np - 1);
            for i in 0..np {
                t.new_node(a, &format!("P{}", i), Some("B"), None, 3, i as u8);
            }
            t.drop_rc(a, "B");
            t.advance(a, settle);
            for i in 0..early {
                t.drop_rc(a, &format!("P{}", i));
            }
            t.advance(a, 1);
            t.run(a);
            t.advance(m, gap);
            t.run(m);
            let read = |t: &mut TB| {
                t.pin(r);
                match reader_kind {
                    0 => t.load(r, C::Root(1), 0, "s"),
                    1 => {
                        t.wload(r, WC::Root(0), 0, "ws");
                        t.wupgrade(r, "ws", true, "s");
                    }
                    _ => {
                        t.load(r, C::Root(1), 0, "s0");
                        t.snap_downgrade(r, "s0", "ws");
                        t.wupgrade(r, "ws", true, "s");
                    }
                }
                t.run(r);
            };
            read(&mut t);
            if parents_after_read {
                for i in early..np {
                    t.drop_rc(a, &format!("P{}", i));
                }
                t.advance(a, 1);
                t.run(a);
            }
            // the live links go
            if m_pinned {
                t.pin(m);
            }
            if !no_live {
                t.swap_null(m, C::Root(1), "Bm");
                t.drop_rc(m, "Bm");
            }
            if two_live {
                t.swap_null(m, C::Root(2), "Bn");
                t.drop_rc(m, "Bn");
            }
            if m_pinned {
                t.unpin(m, 0);
            }
            t.run(m);
            if !parents_after_read {
                for i in early..np {
                    t.drop_rc(a, &format!("P{}", i));
                }
                t.advance(a, 1);
                t.run(a);
            }
            // the collector reclaims the parents while the reader is still inside
            t.advance(m, k);
            t.run(m);
            t.deref_s(r, "s");
            if late > 0 {
                t.advance(m, late);
                t.run(m);
                t.deref_s(r, "s");
            }
            t.counted(r, "s", "Bk");
            t.deref(r, "Bk");
            t.unpin(r, 0);
            t.run(r);
            t.advance(m, 5);
            t.run(m);
            t.deref(r, "Bk");
            t.drop_rc(r, "Bk");
            t.run(r);
            t.advance(m, 6);
            t.run(m);
            t.finish(align, "T12")
        })
        .boxed()
}

/// T13: the cell is changed away from the expected value and back (X -> Y -> X) around a CAS that
/// is parked inside: before its first / second hardware CAS, or at a load it might perform. A
/// strong CAS that reports failure must hand back a `current` that differs from `expected` - there
/// is no instant at which such a call could have failed otherwise.
pub fn t13() -> BoxedStrategy<Value> {
    (
        0u8..48,
        (0u8..8, any::<bool>(), 0u8..3, 0u32..3, any::<bool>()),
        (0u8..3, 0u8..3, any::<bool>(), 0u8..3),
    )
        .prop_map(|(align, (tag, starts_changed, park, nth, desired_null), (back_how, k, tag_cas, rounds))| {
            let (a, b) = (0usize, 1usize);
            const SITES: [u32; 3] = [site::LINK_LOAD, site::LINK_CAS, site::LINK_SWAP];
            let mut t = TB::new(2);
            t.new_node(a, "X", None, None, 3, 20);
            if tag > 0 {
                t.raw(a, crate::rcworld::K::RcTag, 0, tag, 0);
            }
            t.new_node(a, "D", None, None, 3, 30);
            t.new_node(b, "Y", None, None, 3, 40);
            t.pin(a);
            t.clone_rc(a, "X", "Xc");
            t.store(a, C::Root(0), Some("Xc"), 0);
            t.load(a, C::Root(0), 0, "e");
            t.run(a);
            // B keeps an owned X to write it back later
            t.pin(b);
            t.load(b, C::Root(0), 0, "bx");
            t.counted(b, "bx", "Xb");
            t.unpin(b, 0);
            t.advance(b, k);
            t.run(b);
            let away = |t: &mut TB| {
                t.pin(b);
                t.clone_rc(b, "Y", "Yc");
                t.store(b, C::Root(0), Some("Yc"), 0);
                t.unpin(b, 0);
                t.run(b);
            };
            let back = |t: &mut TB| {
                t.pin(b);
                t.clone_rc(b, "Xb", "Xw");
                match back_how {
                    0 => t.store(b, C::Root(0), Some("Xw"), 0),
                    1 => {
                        t.swap(b, C::Root(0), "Xw", "old");
                        t.drop_rc(b, "old");
                    }
                    _ => {
                        t.load(b, C::Root(0), 0, "cur");
                        t.cas(b, C::Root(0), Some("cur"), Some("Xw"), true, "old", "c2");
                        t.drop_rc(b, "old");
                    }
                }
                t.unpin(b, 0);
                t.run(b);
            };
            if starts_changed {
                away(&mut t);
            }
            // the CAS under test (outcome depends on the schedule: slots are declared for failure)
            if tag_cas {
                t.cas_tag(a, C::Root(0), "e", tag.wrapping_add(1), "r");
            } else {
                t.cas(a, C::Root(0), Some("e"), if desired_null { None } else { Some("D") }, false, "prev", "cur");
            }
            t.run_until_site(a, SITES[park as usize % 3], nth + 1);
            if starts_changed {
                back(&mut t);
            } else {
                away(&mut t);
                if rounds > 0 {
                    back(&mut t);
                }
            }
            t.run(a);
            t.unpin(a, 0);
            t.run(a);
            t.advance(b, 4);
            t.run(b);
            t.finish(align, "T13")
        })
        .boxed()
}

/// T13w: the same for AtomicWeak.
pub fn t13w() -> BoxedStrategy<Value> {
    (
        0u8..48,
        (0u8..8, any::<bool>(), 0u8..3, 0u32..3, any::<bool>()),
        (0u8..3, 0u8..3, any::<bool>(), 0u8..3),
    )
        .prop_map(|(align, (tag, starts_changed, park, nth, desired_null), (back_how, k, tag_cas, rounds))| {
            let (a, b) = (0usize, 1usize);
            const SITES: [u32; 3] = [site::WLINK_LOAD, site::WLINK_CAS, site::WLINK_SWAP];
            let mut t = TB::new(2);
            t.new_node(a, "X", None, None, 3, 20);
            if tag > 0 {
                t.raw(a, crate::rcworld::K::RcTag, 0, tag, 0);
            }
            t.new_node(a, "D", None, None, 3, 30);
            t.new_node(b, "Y", None, None, 3, 40);
            t.downgrade(a, "X", "wx");
            t.downgrade(a, "D", "wd");
            t.downgrade(b, "Y", "wy");
            t.pin(a);
            t.wclone(a, "wx", "wxc");
            t.wstore(a, WC::Root(0), Some("wxc"), 0);
            t.wload(a, WC::Root(0), 0, "e");
            t.run(a);
            // B keeps a Weak to X to write it back later
            t.pin(b);
            t.wload(b, WC::Root(0), 0, "bx");
            t.wcounted(b, "bx", "wxb");
            t.unpin(b, 0);
            t.advance(b, k);
            t.run(b);
            let away = |t: &mut TB| {
                t.pin(b);
                t.wclone(b, "wy", "wyc");
                t.wstore(b, WC::Root(0), Some("wyc"), 0);
                t.unpin(b, 0);
                t.run(b);
            };
            let back = |t: &mut TB| {
                t.pin(b);
                t.wclone(b, "wxb", "wxw");
                match back_how {
                    0 => t.wstore(b, WC::Root(0), Some("wxw"), 0),
                    1 => {
                        t.wswap(b, WC::Root(0), Some("wxw"), "old");
                        t.wdrop(b, "old");
                    }
                    _ => {
                        t.wload(b, WC::Root(0), 0, "cur");
                        t.wcas(b, WC::Root(0), Some("cur"), Some("wxw"), true, "old", "c2");
                        t.wdrop(b, "old");
                    }
                }
                t.unpin(b, 0);
                t.run(b);
            };
            if starts_changed {
                away(&mut t);
            }
            if tag_cas {
                t.wcas_tag(a, WC::Root(0), "e", tag.wrapping_add(1), "r");
            } else {
                t.wcas(a, WC::Root(0), Some("e"), if desired_null { None } else { Some("wd") }, false, "prev", "cur");
            }
            t.run_until_site(a, SITES[park as usize % 3], nth + 1);
            if starts_changed {
                back(&mut t);
            } else {
                away(&mut t);
                if rounds > 0 {
                    back(&mut t);
                }
            }
            t.run(a);
            t.unpin(a, 0);
            t.run(a);
            t.advance(b, 4);
            t.run(b);
            t.finish(align, "T13w")
        })
        .boxed()
}

/// T14: two writers on one cell. A's store / swap into a cell (empty or not) is parked at a load or
/// swap site inside the call; B writes the same cell (store / swap / CAS from what it loads);
/// A resumes. Whatever was in the cell and was overwritten must have been released exactly once:
/// count conservation after the join and nothing left at quiescence decide.
pub fn t14() -> BoxedStrategy<Value> {
    (
        0u8..48,
        (any::<bool>(), 0u8..3, 0u32..3, 0u8..3, 0u8..3),
        (any::<bool>(), any::<bool>(), 0u8..3),
    )
        .prop_map(|(align, (starts_empty, park, nth, a_how, b_how), (a_null, b_null, k))| {
            let (a, b) = (0usize, 1usize);
            const SITES: [u32; 3] = [site::LINK_LOAD, site::LINK_SWAP, site::LINK_CAS];
            let mut t = TB::new(2);
            t.new_node(a, "D", None, None, 3, 30);
            t.new_node(b, "Y", None, None, 3, 40);
            if !starts_empty {
                t.new_node(a, "X", None, None, 3, 20);
                t.pin(a);
                t.store(a, C::Root(0), Some("X"), 0);
                t.unpin(a, 0);
            }
            t.advance(a, k);
            t.run(a);
            // A's write, parked inside
            t.pin(a);
            match a_how {
                0 => t.store(a, C::Root(0), if a_null { None } else { Some("D") }, 0),
                1 => {
                    if a_null {
                        t.swap_null(a, C::Root(0), "aold");
                    } else {
                        t.swap(a, C::Root(0), "D", "aold");
                    }
                }
                _ => {
                    t.load(a, C::Root(0), 0, "acur");
                    t.run(a);
                    t.cas(a, C::Root(0), Some("acur"), if a_null { None } else { Some("D") }, false, "aprev", "acur2");
                }
            }
            t.run_until_site(a, SITES[park as usize % 3], nth + 1);
            // B's write
            t.pin(b);
            match b_how {
                0 => t.store(b, C::Root(0), if b_null { None } else { Some("Y") }, 0),
                1 => {
                    if b_null {
                        t.swap_null(b, C::Root(0), "bold");
                    } else {
                        t.swap(b, C::Root(0), "Y", "bold");
                    }
                }
                _ => {
                    t.load(b, C::Root(0), 0, "bcur");
                    t.cas(b, C::Root(0), Some("bcur"), if b_null { None } else { Some("Y") }, true, "bprev", "bcur2");
                }
            }
            t.unpin(b, 0);
            t.run(b);
            t.run(a);
            t.unpin(a, 0);
            t.run(a);
            t.advance(b, 4);
            t.run(b);
            t.finish(align, "T14")
        })
        .boxed()
}
