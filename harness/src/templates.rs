//! Choreography templates (DESIGN.md Appendix B): parameterised skeletons of the few-thread
//! scenarios the counting-layer properties are about. Parameters are generated and shrunk by
//! proptest; the output is an ordinary `RcCase`.

use proptest::prelude::*;
use proptest::strategy::BoxedStrategy;
use serde_json::Value;

use crate::rcgen::{C, TB, WC};
use circ::verif::site;

/// T1: two-owner cascade / stalled dropper.
pub fn t1() -> BoxedStrategy<Value> {
    (
        0u8..48,
        (0u8..2, any::<bool>(), 0usize..6, 0u8..3),
        (0u8..5, 0u8..7, any::<bool>(), any::<bool>(), 0u8..3),
        (any::<bool>(), 0u8..3),
    )
        .prop_map(
            |(align, (link_mode, a_pinned, site_i, rel_kind), (j, k, unlink_first, b_releases, collector), (third_owner, late))| {
                const SITES: [u32; 6] = [0, site::EPOCH_LOADED, site::DEC_S_LOAD, site::DEC_S_CAS, site::EPOCH_LOAD, site::LINK_SWAP];
                let park = SITES[site_i];
                let (a, b, c) = (0usize, 1usize, 2usize);
                let mut t = TB::new(3);
                // setup by A
                t.new_node(a, "X", None, None, 3, 40);
                if link_mode == 0 {
                    t.new_node(a, "P", Some("X"), None, 3, 0);
                    t.pin(a);
                } else {
                    t.new_node(a, "P", None, None, 3, 1);
                    t.pin(a);
                    t.clone_rc(a, "X", "X2");
                    t.store(a, C::Edge("P", 0), Some("X2"), 0);
                }
                t.store(a, C::Root(0), Some("P"), 0);
                t.clone_rc(a, "X", "Xc");
                t.store(a, C::Root(1), Some("Xc"), 0);
                if third_owner {
                    t.clone_rc(a, "X", "X3");
                    t.store(a, C::Root(2), Some("X3"), 0);
                }
                t.unpin(a, 0);
                t.run(a);
                // 1. A starts releasing its share of X and is parked inside
                if a_pinned {
                    t.pin(a);
                    t.run(a);
                }
                match rel_kind {
                    0 => t.drop_rc(a, "X"),
                    1 => {
                        if !a_pinned {
                            t.pin(a);
                            t.run(a);
                        }
                        t.finalize(a, "X", 0)
                    }
                    _ => {
                        // release by overwriting a cell that holds it
                        if !a_pinned {
                            t.pin(a);
                        }
                        t.store(a, C::Root(3), Some("X"), 0);
                        t.run(a);
                        t.store(a, C::Root(3), None, 0);
                    }
                }
                t.run_until_site(a, park, 1);
                let unlink = |t: &mut TB| {
                    t.swap_null(c, C::Root(0), "P");
                    t.drop_rc(c, "P");
                    t.advance(c, j);
                    t.run(c);
                };
                let read = |t: &mut TB| {
                    t.pin(b);
                    t.load(b, C::Root(1), 0, "s");
                    t.run(b);
                    let r = if b_releases { b } else { c };
                    t.swap_null(r, C::Root(1), "Xo");
                    t.drop_rc(r, "Xo");
                    t.run(r);
                };
                if unlink_first {
                    unlink(&mut t);
                    read(&mut t);
                } else {
                    read(&mut t);
                    unlink(&mut t);
                }
                // 4. A resumes
                if late == 0 {
                    if a_pinned || rel_kind != 0 {
                        t.unpin(a, 0);
                    }
                    t.run(a);
                }
                // 5. collection
                let col = match collector {
                    0 => c,
                    1 => a,
                    _ => c,
                };
                if col == a && late != 0 {
                    t.advance(c, k);
                    t.run(c);
                } else {
                    t.advance(col, k);
                    t.run(col);
                }
                // 6. the reader uses its snapshot
                t.deref_s(b, "s");
                t.counted(b, "s", "Xb");
                t.deref(b, "Xb");
                t.run(b);
                if late != 0 {
                    if a_pinned || rel_kind != 0 {
                        t.unpin(a, 0);
                    }
                    t.run(a);
                    t.advance(c, late);
                    t.run(c);
                    t.deref_s(b, "s");
                    t.run(b);
                }
                t.unpin(b, 0);
                t.drop_rc(b, "Xb");
                t.run(b);
                t.advance(c, 4);
                t.run(c);
                t.finish(align, "T1")
            },
        )
        .boxed()
}

/// T2: upgrade vs. last drop.
pub fn t2() -> BoxedStrategy<Value> {
    (
        0u8..48,
        (0u8..4, 0usize..6, 0u8..5, 0u8..14, 0u8..9, 0u8..4),
        (any::<bool>(), 0usize..3, any::<bool>()),
    )
        .prop_map(|(align, (a_r, site_i, b_r, c_r, keep, d_r), (via_snapshot, td_site_i, second_weak))| {
            const SITES: [u32; 6] = [0, site::INC_S_1, site::INC_S_2, site::IND_CAS, site::IND_LOAD, site::EPOCH_LOADED];
            const TD_SITES: [u32; 3] = [0, site::TD_LOAD, site::TD_CAS];
            let park = SITES[site_i];
            let td_park = TD_SITES[td_site_i];
            let (t0, u) = (0usize, 1usize);
            let mut t = TB::new(2);
            t.new_node(t0, "X", None, None, 3, 10);
            t.downgrade(t0, "X", "w");
            t.pin(t0);
            t.wstore(t0, WC::Root(0), Some("w"), 0);
            t.unpin(t0, 0);
            t.run(t0);
            t.pin(u);
            t.wload(u, WC::Root(0), 0, "ws");
            t.wcounted(u, "ws", "w");
            if second_weak {
                t.wclone(u, "w", "w2");
            }
            t.unpin(u, 0);
            t.run(u);
            // 1. last strong drop
            t.drop_rc(t0, "X");
            t.advance(t0, a_r);
            t.run(t0);
            // 2. upgrade, parked inside
            if via_snapshot {
                t.pin(u);
                t.wsnapshot(u, "w", 0, "ws");
                t.run(u);
                t.wupgrade(u, "ws", true, "s");
                t.run_until_site(u, park, 1);
            } else {
                t.upgrade(u, "w", true, "Xu");
                t.run_until_site(u, park, 1);
            }
            // 3. the owner's side collects (possibly itself parked inside try_destruct)
            t.advance(t0, b_r);
            if td_park != 0 {
                t.run_until_site(t0, td_park, 1);
            } else {
                t.run(t0);
            }
            // 4. upgrade finishes
            if via_snapshot {
                t.counted(u, "s", "Xu");
                t.deref_s(u, "s");
                t.unpin(u, 0);
            }
            t.run(u);
            // 5.
            t.advance(t0, c_r);
            t.run(t0);
            // 6. use and keep
            t.deref(u, "Xu");
            t.run(u);
            t.advance(t0, keep);
            t.run(t0);
            t.deref(u, "Xu");
            t.drop_rc(u, "Xu");
            t.run(u);
            // 7.
            t.advance(t0, d_r * 3);
            t.run(t0);
            t.upgrade(u, "w", false, "Xv");
            t.raw(u, crate::rcworld::K::Deref, 0, 0, 0);
            t.raw(u, crate::rcworld::K::Drop, 0, 0, 0);
            t.advance(u, 5);
            t.upgrade(u, "w", false, "Xv");
            t.run(u);
            t.finish(align, "T2")
        })
        .boxed()
}
