mod checks;

/// Freed blocks of up to 4 KiB (participant records, bag-queue nodes, bag buffers) are poisoned and never handed out again while a
/// case asks for it: a use-after-free inside the collector's own data structures then reads a
/// pattern that makes the process die instead of happening to read the old contents.
pub static QUARANTINE: std::sync::atomic::AtomicBool = std::sync::atomic::AtomicBool::new(false);
pub static POISONED_RECORDS: std::sync::atomic::AtomicU64 = std::sync::atomic::AtomicU64::new(0);
struct PoisonAlloc;
unsafe impl std::alloc::GlobalAlloc for PoisonAlloc {
    unsafe fn alloc(&self, l: std::alloc::Layout) -> *mut u8 {
        std::alloc::System.alloc(l)
    }
    unsafe fn dealloc(&self, p: *mut u8, l: std::alloc::Layout) {
        if (l.align() >= 128 || (l.size() >= 32 && l.size() <= 4096)) && QUARANTINE.load(std::sync::atomic::Ordering::Relaxed) {
            if l.align() >= 128 {
                POISONED_RECORDS.fetch_add(1, std::sync::atomic::Ordering::Relaxed);
            }
            std::ptr::write_bytes(p, 0xDE, l.size());
            return;
        }
        std::alloc::System.dealloc(p, l)
    }
    unsafe fn realloc(&self, p: *mut u8, l: std::alloc::Layout, n: usize) -> *mut u8 {
        std::alloc::System.realloc(p, l, n)
    }
}
#[global_allocator]
static ALLOC: PoisonAlloc = PoisonAlloc;

mod micro;
mod queuelist;
mod tls;
mod ebrworld;
mod pure;
mod seq;
mod rcgen;
mod rcworld;
mod runner;
mod sat;
mod sched;
mod shadow;
mod templates;

use runner::Tier;

fn usage() -> ! {
    eprintln!("usage: vcheck run <ID> [quick|thorough] | shard <ID> <tier> <seed> <shard> <nshards> <out> | replay <file> | list");
    std::process::exit(2)
}

fn main() {
    let args: Vec<String> = std::env::args().collect();
    if args.len() < 2 {
        usage();
    }
    let defs = checks::all();
    match args[1].as_str() {
        "micro-calibrate" => {
            // prints, for each micro-program, the steps A and B take when not preempted
            let mut i = 0u64;
            let mut last = String::new();
            while let Some(v) = micro::enumerate(Tier::Thorough, i) {
                let name = v["tmpl"].as_str().unwrap().to_string();
                if name != last {
                    // find the un-preempted case: last index of this program's first order
                    last = name.clone();
                }
                i += 1;
                if i > 3_000_000 {
                    break;
                }
            }
            for (pi, m) in micro::MICROS.iter().enumerate() {
                // index of (order 0, k = none, m = none)
                let mut base = 0u64;
                for q in &micro::MICROS[..pi] {
                    base += 2 * (q.ka as u64 + 1) * (q.kb as u64 + 1);
                }
                let idx = base + (m.ka as u64) * (m.kb as u64 + 1) + m.kb as u64;
                let v = micro::enumerate(Tier::Thorough, idx).unwrap();
                let out = runner::run_forked(60, &|| rcworld::exec("C01", &v));
                if let runner::Outcome::Done(rep) = out {
                    println!("{:70} steps A={:?} B={:?} (bounds {} {}) setup included; noops={:?}", m.name, rep.counters.get("steps_t0"), rep.counters.get("steps_t1"), m.ka, m.kb, rep.counters.get("ops_noop"));
                } else {
                    println!("{} -> {:?}", m.name, out);
                }
            }
        }
        "list" => {
            for d in &defs {
                println!("{}", d.id);
            }
        }
        "run" => {
            if args.len() < 3 {
                usage();
            }
            let tier = args
                .get(3)
                .cloned()
                .or_else(|| std::env::var("VERIF_TIER").ok())
                .unwrap_or_else(|| "quick".into());
            let Some(tier) = Tier::parse(&tier) else { usage() };
            let seed: u64 = std::env::var("VERIF_SEED")
                .ok()
                .and_then(|s| s.parse::<i64>().ok())
                .map(|v| v as u64)
                .unwrap_or(0);
            let Some(def) = defs.iter().find(|d| d.id == args[2]) else {
                eprintln!("unknown check {}", args[2]);
                std::process::exit(2)
            };
            std::process::exit(runner::run_check(def, tier, seed));
        }
        "shard" => {
            if args.len() < 8 {
                usage();
            }
            let Some(def) = defs.iter().find(|d| d.id == args[2]) else { usage() };
            let tier = Tier::parse(&args[3]).unwrap();
            let seed: u64 = args[4].parse().unwrap();
            let shard: usize = args[5].parse().unwrap();
            let nshards: usize = args[6].parse().unwrap();
            let known = runner::load_known();
            let out = runner::run_shard(def, tier, seed, shard, nshards, &known);
            std::fs::write(&args[7], serde_json::to_string(&out).unwrap()).unwrap();
        }
        "replay" => {
            if args.len() < 3 {
                usage();
            }
            std::process::exit(runner::replay(&defs, &args[2]));
        }
        _ => usage(),
    }
}
