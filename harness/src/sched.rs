//! Cooperative scheduler: exactly one worker thread runs at a time; the interleaving is data.

use std::cell::Cell;
use std::sync::{Condvar, Mutex};

use serde::{Deserialize, Serialize};

pub const NOT_WORKER: usize = usize::MAX;

thread_local! {
    // const-initialised, no destructor: readable during TLS tear-down
    static TID: Cell<usize> = const { Cell::new(NOT_WORKER) };
}

pub fn tid() -> usize {
    TID.with(|t| t.get())
}

#[derive(Serialize, Deserialize, Clone, Copy, Debug, PartialEq, Eq)]
pub enum Until {
    /// let the thread perform `n` more atomic accesses, park it before the next one
    Steps(u32),
    /// park the thread right before its `nth` (>=1) visit of yield site `site` from now, or after
    /// it completed `ops` more ops (0 = no limit), whichever comes first
    Site {
        site: u32,
        nth: u32,
        #[serde(default)]
        ops: u32,
    },
    /// park the thread at its first yield point after its `nth` library event of kind `kind`
    /// from now (events are reported by the world through `note_event`)
    Event { kind: u32, nth: u32 },
    /// park the thread after it completed `k` more ops
    Ops(u32),
    /// park the thread once it has completed `n` ops in total (skipped if it already has)
    OpIndex(u32),
    /// run the thread to its end (including thread-local destructors)
    End,
}

#[derive(Serialize, Deserialize, Clone, Copy, Debug, PartialEq, Eq)]
pub struct Directive {
    pub thread: u8,
    pub until: Until,
}

pub struct StallRec {
    pub thread: usize,
    pub site: u32,
    pub epochs: usize,
}

struct Inner {
    n: usize,
    /// thread holding the baton; `n` = the controller (main thread)
    running: usize,
    finished: Vec<bool>,
    dirs: Vec<Directive>,
    di: usize,
    /// progress counters of the current directive
    rem: u32,
    rem_ops: u32,
    ops_done: Vec<u32>,
    cur_until: Option<Until>,
    steps_total: u64,
    steps_by: Vec<u64>,
    switches: u64,
    parked_site: Vec<u32>,
    parked_epoch: Vec<usize>,
    in_op: Vec<bool>,
    stalls: Vec<StallRec>,
    site_hits: Vec<u64>,
    mid_op_parks: u64,
    quantum: u32,
    rr_last: usize,
}

static SCHED: Mutex<Option<Inner>> = Mutex::new(None);
static CV: Condvar = Condvar::new();

/// Called at every yield point by the acting worker (with the scheduler lock *not* held), e.g. for
/// the epoch-clock oracle. Receives (thread, site).
static mut STEP_HOOK: Option<fn(usize, u32)> = None;

pub fn set_step_hook(f: Option<fn(usize, u32)>) {
    unsafe { STEP_HOOK = f }
}

pub fn init(n: usize, dirs: Vec<Directive>) {
    init_rr(n, dirs, 0)
}

/// `quantum` > 0: once the directives are used up the remaining workers take turns of `quantum`
/// ops each (round robin) instead of running to completion one after the other.
pub fn init_rr(n: usize, dirs: Vec<Directive>, quantum: u32) {
    let mut g = SCHED.lock().unwrap();
    *g = Some(Inner {
        n,
        running: n,
        finished: vec![false; n],
        dirs,
        di: 0,
        rem: 0,
        rem_ops: 0,
        ops_done: vec![0; n],
        cur_until: None,
        steps_total: 0,
        steps_by: vec![0; n],
        switches: 0,
        parked_site: vec![0; n],
        parked_epoch: vec![0; n],
        in_op: vec![false; n],
        stalls: Vec::new(),
        site_hits: vec![0; 64],
        mid_op_parks: 0,
        quantum,
        rr_last: 0,
    });
    circ::verif::set_yield_hook(Some(yield_hook));
}

impl Inner {
    /// Chooses who runs next; called when the current directive is exhausted or its thread is done.
    fn next_runner(&mut self) -> usize {
        loop {
            if self.di < self.dirs.len() {
                let d = self.dirs[self.di];
                self.di += 1;
                let t = d.thread as usize;
                if t >= self.n || self.finished[t] {
                    continue;
                }
                if let Until::OpIndex(n) = d.until {
                    if self.ops_done[t] >= n {
                        continue;
                    }
                }
                self.cur_until = Some(d.until);
                self.rem = match d.until {
                    Until::Steps(k) => k,
                    Until::Site { nth, .. } => nth.max(1),
                    Until::Event { nth, .. } => nth.max(1),
                    Until::Ops(k) => k.max(1),
                    Until::End | Until::OpIndex(_) => 0,
                };
                self.rem_ops = match d.until {
                    Until::Site { ops, .. } => ops,
                    _ => 0,
                };
                return t;
            }
            if self.quantum > 0 {
                // directives exhausted: round robin, `quantum` ops per turn
                for k in 1..=self.n {
                    let t = (self.rr_last + k) % self.n;
                    if !self.finished[t] {
                        self.rr_last = t;
                        self.cur_until = Some(Until::Ops(self.quantum));
                        self.rem = self.quantum;
                        return t;
                    }
                }
                return self.n;
            }
            // directives exhausted: remaining workers run to completion in index order
            self.cur_until = Some(Until::End);
            for t in 0..self.n {
                if !self.finished[t] {
                    return t;
                }
            }
            return self.n;
        }
    }
}

fn hand_over(g: &mut std::sync::MutexGuard<'_, Option<Inner>>, me: usize, site: u32) -> usize {
    let inner = g.as_mut().unwrap();
    let next = inner.next_runner();
    if next != me {
        inner.switches += 1;
        if me < inner.n {
            inner.parked_site[me] = site;
            inner.parked_epoch[me] = circ::verif::global_epoch();
            if inner.in_op[me] && site != 0 {
                inner.mid_op_parks += 1;
            }
        }
        inner.running = next;
        CV.notify_all();
    }
    next
}

fn wait_for_turn(mut g: std::sync::MutexGuard<'_, Option<Inner>>, me: usize) {
    loop {
        {
            let inner = g.as_mut().unwrap();
            if inner.running == me {
                if me < inner.n {
                    // being given the baton counts as activity of this thread: it may perform the
                    // access it was parked in front of and reach an op boundary without passing
                    // another yield point (this is what `steps_by_others` is for)
                    inner.steps_by[me] += 1;
                    let site = inner.parked_site[me];
                    if site != 0 {
                        let now = circ::verif::global_epoch();
                        let d = now.wrapping_sub(inner.parked_epoch[me]);
                        if d >= 2 {
                            inner.stalls.push(StallRec {
                                thread: me,
                                site,
                                epochs: d,
                            });
                        }
                        inner.parked_site[me] = 0;
                    }
                }
                return;
            }
        }
        g = CV.wait(g).unwrap();
    }
}

fn yield_hook(site: u32) {
    let me = tid();
    if me == NOT_WORKER {
        return;
    }
    if let Some(h) = unsafe { STEP_HOOK } {
        h(me, site);
    }
    let mut g = SCHED.lock().unwrap();
    let switch = {
        let inner = g.as_mut().unwrap();
        debug_assert_eq!(inner.running, me);
        inner.steps_total += 1;
        inner.steps_by[me] += 1;
        if (site as usize) < inner.site_hits.len() {
            inner.site_hits[site as usize] += 1;
        }
        match inner.cur_until {
            Some(Until::Steps(_)) => {
                if inner.rem == 0 {
                    true
                } else {
                    inner.rem -= 1;
                    false
                }
            }
            Some(Until::Site { site: s, .. }) if s == site => {
                inner.rem -= 1;
                inner.rem == 0
            }
            Some(Until::Event { .. }) => inner.rem == 0,
            _ => false,
        }
    };
    if switch {
        let next = hand_over(&mut g, me, site);
        if next != me {
            wait_for_turn(g, me);
        }
    }
}

/// World: the running worker produced a library event (counts towards an `Event` directive).
pub fn note_event(kind: u32) {
    let me = tid();
    if me == NOT_WORKER {
        return;
    }
    let mut g = SCHED.lock().unwrap();
    if let Some(inner) = g.as_mut() {
        if inner.running == me {
            if let Some(Until::Event { kind: k, .. }) = inner.cur_until {
                if k == kind && inner.rem > 0 {
                    inner.rem -= 1;
                }
            }
        }
    }
}

/// Worker: announce identity and wait for the first turn. Must be the first thing a worker does.
pub fn worker_enter(me: usize) {
    TID.with(|t| t.set(me));
    SENTINEL.with(|_| ());
    let g = SCHED.lock().unwrap();
    wait_for_turn(g, me);
}

pub fn op_begin() {
    let me = tid();
    if me == NOT_WORKER {
        return;
    }
    let mut g = SCHED.lock().unwrap();
    g.as_mut().unwrap().in_op[me] = true;
}

/// Worker: an op has completed (a possible switch point for `Ops(k)` directives).
pub fn op_done() {
    let me = tid();
    if me == NOT_WORKER {
        return;
    }
    let mut g = SCHED.lock().unwrap();
    let switch = {
        let inner = g.as_mut().unwrap();
        inner.in_op[me] = false;
        inner.ops_done[me] += 1;
        match inner.cur_until {
            Some(Until::OpIndex(n)) => inner.ops_done[me] >= n,
            Some(Until::Ops(_)) => {
                inner.rem -= 1;
                inner.rem == 0
            }
            Some(Until::Site { .. }) if inner.rem_ops > 0 => {
                inner.rem_ops -= 1;
                inner.rem_ops == 0
            }
            _ => false,
        }
    };
    if switch {
        let next = hand_over(&mut g, me, 0);
        if next != me {
            wait_for_turn(g, me);
        }
    }
}

/// Worker: leave the schedule without ending the thread (what the sentinel does at thread exit).
/// The thread may go on using the library afterwards, unscheduled, once `finish` has been called.
pub fn worker_detach() {
    let me = tid();
    if me == NOT_WORKER {
        return;
    }
    let mut g = match SCHED.lock() {
        Ok(g) => g,
        Err(p) => p.into_inner(),
    };
    if let Some(inner) = g.as_mut() {
        inner.finished[me] = true;
        inner.in_op[me] = false;
    } else {
        return;
    }
    TID.with(|t| t.set(NOT_WORKER));
    hand_over(&mut g, me, 0);
}

struct Sentinel;
impl Drop for Sentinel {
    fn drop(&mut self) {
        // Runs after every thread-local destructor registered later than it (in particular
        // circ's participant handle): the worker is really gone now.
        let me = tid();
        if me == NOT_WORKER {
            return;
        }
        let mut g = match SCHED.lock() {
            Ok(g) => g,
            Err(p) => p.into_inner(),
        };
        if let Some(inner) = g.as_mut() {
            inner.finished[me] = true;
            inner.in_op[me] = false;
        } else {
            return;
        }
        TID.with(|t| t.set(NOT_WORKER));
        hand_over(&mut g, me, 0);
    }
}

thread_local! {
    static SENTINEL: Sentinel = Sentinel;
}

/// Controller: start the workers' schedule and block until every worker is gone.
pub fn run_all() {
    let mut g = SCHED.lock().unwrap();
    let n = g.as_ref().unwrap().n;
    let next = g.as_mut().unwrap().next_runner();
    g.as_mut().unwrap().running = next;
    CV.notify_all();
    wait_for_turn(g, n);
}

pub struct Summary {
    pub steps_by: Vec<u64>,
    pub steps: u64,
    pub switches: u64,
    pub mid_op_parks: u64,
    pub stalls: Vec<StallRec>,
    pub site_hits: Vec<u64>,
}

pub fn finish() -> Summary {
    circ::verif::set_yield_hook(None);
    let mut g = SCHED.lock().unwrap();
    let inner = g.take().unwrap();
    Summary {
        steps_by: inner.steps_by.clone(),
        steps: inner.steps_total,
        switches: inner.switches,
        mid_op_parks: inner.mid_op_parks,
        stalls: inner.stalls,
        site_hits: inner.site_hits,
    }
}

pub fn steps_total() -> u64 {
    SCHED.lock().unwrap().as_ref().map_or(0, |i| i.steps_total)
}

/// Steps taken so far by threads other than `me`.
pub fn steps_by_others(me: usize) -> u64 {
    SCHED.lock().unwrap().as_ref().map_or(0, |i| {
        i.steps_by
            .iter()
            .enumerate()
            .filter(|(t, _)| *t != me)
            .map(|(_, s)| *s)
            .sum()
    })
}

/// Sites at which some thread is parked right now (thread, site), excluding `me`.
pub fn parked_now(me: usize) -> Vec<(usize, u32)> {
    SCHED.lock().unwrap().as_ref().map_or(Vec::new(), |i| {
        (0..i.n)
            .filter(|t| *t != me && !i.finished[*t] && i.parked_site[*t] != 0)
            .map(|t| (t, i.parked_site[t]))
            .collect()
    })
}

/// Stall records so far: sites at which a thread was parked across >= 2 epoch advances,
/// including threads that are parked right now.
pub fn stall_sites() -> Vec<u32> {
    let g = SCHED.lock().unwrap();
    let mut v: Vec<u32> = Vec::new();
    if let Some(i) = g.as_ref() {
        for s in &i.stalls {
            v.push(s.site);
        }
        let now = circ::verif::global_epoch();
        for t in 0..i.n {
            if !i.finished[t] && i.parked_site[t] != 0 && now.wrapping_sub(i.parked_epoch[t]) >= 2 {
                v.push(i.parked_site[t]);
            }
        }
    }
    v.sort();
    v.dedup();
    v
}

pub fn site_name(site: u32) -> &'static str {
    circ::verif::site::ALL
        .iter()
        .find(|(v, _)| *v == site)
        .map(|(_, n)| *n)
        .unwrap_or("?")
}
