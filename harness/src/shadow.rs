//! Shadow model of the reference-counting layer: who definitely holds what, and the liveness
//! oracles evaluated at every destruct / free event.

use std::collections::BTreeMap;
use std::sync::Mutex;

use circ::{AtomicRc, AtomicWeak, Rc, RcObject};

use crate::runner::violation;
use crate::sched;

pub const NROOTS: usize = 4;
pub const NWROOTS: usize = 3;
pub const CANARY: u64 = 0x5AFE_C0DE_0000_0000;
pub const DEAD: u64 = 0xDEAD_DEAD_DEAD_DEAD;

pub struct VNode {
    pub id: u32,
    pub rank: u32,
    pub val: u64,
    pub canary: u64,
    pub edges: [AtomicRc<VNode>; 2],
    pub wedge: AtomicWeak<VNode>,
    pub pop_mask: u8,
    /// what the destructor does with the API (0 = nothing), see `destructor_action`
    pub dact: u8,
}

/// A payload without edges, used as filler garbage by destructor actions (not tracked by the
/// shadow model beyond its block address).
pub struct Junk(#[allow(dead_code)] pub u64);
unsafe impl RcObject for Junk {
    fn pop_edges(&mut self, _: &mut Vec<Rc<Self>>) {}
}

unsafe impl RcObject for VNode {
    fn pop_edges(&mut self, out: &mut Vec<Rc<Self>>) {
        on_pop_edges(self.id as usize, self.canary);
        for e in 0..2 {
            if self.pop_mask & (1 << e) != 0 {
                out.push(self.edges[e].take());
            }
        }
    }
}

impl Drop for VNode {
    fn drop(&mut self) {
        on_drop(self.id as usize, self.canary);
        if self.dact != 0 {
            destructor_action(self.dact, self.id as usize);
        }
        self.canary = DEAD;
    }
}

static DTOR_INST: std::sync::atomic::AtomicU64 = std::sync::atomic::AtomicU64::new(1);

/// API use from inside a destructor, i.e. (normally) during a collection: enter a critical
/// section, take a Snapshot from a root cell, release filler references in bursts that cross bag
/// boundaries, and use the Snapshot again before leaving. The Snapshot is a holding like any other:
/// the object it refers to must not be destructed before the guard is dropped.
fn destructor_action(dact: u8, me_obj: usize) {
    use std::sync::atomic::Ordering::SeqCst;
    let shared: &'static Shared = with(|s| unsafe { &*(s.shared as *const Shared) });
    let r = (dact as usize) % NROOTS;
    let mode = (dact >> 2) % 4;
    let thread = {
        let t = sched::tid();
        if t == sched::NOT_WORKER {
            99
        } else {
            t
        }
    };
    let inst = (1u64 << 62) | DTOR_INST.fetch_add(1, SeqCst);
    let g = circ::cs();
    let snap = shared.roots[r].load(SeqCst, &g);
    let w = circ::verif::snapshot_word(&snap);
    let obj = with(|s| {
        s.log(format!("t{}:dtor(obj{}):pin+load(root{})", tname(), me_obj, r));
        s.bump("destructor_actions");
        let o = s.obj_of_word(w);
        if let Some(o) = o {
            s.holds.push(SnapHold {
                thread,
                inst,
                obj: o,
                origin: "load-in-destructor",
                weak: false,
            });
            s.bump("destructor_snapshots");
        }
        o
    });
    let check = |what: &str| {
        if let (Some(o), Some(n)) = (obj, snap.as_ref()) {
            let (id, val, canary) = (n.id, n.val, n.canary);
            with(|s| {
                let ob = &s.objs[o];
                if id as usize != o || val != ob.val || canary != CANARY ^ o as u64 || ob.dropped {
                    let d = format!(
                        "inside the destructor of obj{} ({}): the Snapshot loaded under the destructor's own guard reads (id={}, val={:#x}, canary={:#x}) but obj{} has val={:#x} dropped={}; trace: {}",
                        me_obj, what, id, val, canary, o, ob.val, ob.dropped, s.tail(40)
                    );
                    violation("C02", "O-deref", "O-deref/in-destructor", &d);
                }
            })
        }
    };
    check("right after the load");
    let bursts = match mode {
        0 => 0,
        1 => 1,
        _ => 3,
    };
    for b in 0..bursts {
        let junk: Vec<Rc<Junk>> = (0..70).map(|i| Rc::new(Junk(i))).collect();
        with(|s| {
            for j in &junk {
                s.untracked.insert(addr_of_word(circ::verif::rc_word(j)));
            }
        });
        drop(junk);
        check(if b == 0 { "after the first burst of 70 releases" } else { "after a later burst of 70 releases" });
    }
    if mode == 3 {
        // hand a counted reference to a live cell (ownership moves into the cell)
        if obj.is_some() {
            let rc = snap.counted();
            shared.roots[(r + 1) % NROOTS].store(rc, SeqCst, &g);
        }
    }
    with(|s| {
        s.holds.retain(|h| !(h.thread == thread && h.inst == inst));
        s.log(format!("t{}:dtor(obj{}):unpin", tname(), me_obj));
    });
    drop(g);
}

pub struct Shared {
    pub roots: [AtomicRc<VNode>; NROOTS],
    pub wroots: [AtomicWeak<VNode>; NWROOTS],
}

#[derive(Clone, Debug)]
pub struct Obj {
    pub id: usize,
    pub addr: usize,
    pub node: usize,
    pub rank: u32,
    pub val: u64,
    pub popped: bool,
    pub dropped: bool,
    pub freed: bool,
    pub marked: bool,
    pub rc_owners: u32,
    pub iter_shares: u32,
    pub weak_owners: u32,
    pub ever_zero: bool,
    pub upgrade_failed: bool,
    pub dispose_depth: Option<usize>,
    pub had_weak: bool,
    pub weak_after_destruct: bool,
    pub upgrades_ok_before: u32,
    pub upgrades_fail_after: u32,
}

#[derive(Clone, Debug)]
pub struct SnapHold {
    pub thread: usize,
    pub inst: u64,
    pub obj: usize,
    pub origin: &'static str,
    pub weak: bool,
}

pub struct Shadow {
    pub objs: Vec<Obj>,
    pub by_addr: BTreeMap<usize, usize>,
    pub holds: Vec<SnapHold>,
    pub shared: usize,
    pub roots_live: bool,
    pub trace: Vec<String>,
    pub c: BTreeMap<&'static str, u64>,
    pub sequential: bool,
    /// origin of the most recently added rc owner per object (for signatures)
    pub rc_origin: BTreeMap<usize, &'static str>,
    /// blocks of filler objects created by destructor actions
    pub untracked: std::collections::BTreeSet<usize>,
    /// global epoch at which the disposal pass running on each thread started
    pub disposal_started_at: Vec<u64>,
    /// C04 only: do not end the case at an O-own trip (see check_liveness)
    pub tolerate_own: bool,
    pub compromised: std::collections::BTreeSet<usize>,
}

pub static SH: Mutex<Option<Shadow>> = Mutex::new(None);

pub fn addr_of_word(w: usize) -> usize {
    w & !(0xFusize << 60) & !7usize
}

pub fn with<R>(f: impl FnOnce(&mut Shadow) -> R) -> R {
    let mut g = match SH.lock() {
        Ok(g) => g,
        Err(p) => p.into_inner(),
    };
    f(g.as_mut().expect("shadow not initialised"))
}

pub fn init(shared: &'static Shared, sequential: bool) {
    let mut g = SH.lock().unwrap();
    *g = Some(Shadow {
        objs: Vec::new(),
        by_addr: BTreeMap::new(),
        holds: Vec::new(),
        shared: shared as *const Shared as usize,
        roots_live: true,
        trace: Vec::new(),
        c: BTreeMap::new(),
        sequential,
        rc_origin: BTreeMap::new(),
        untracked: std::collections::BTreeSet::new(),
        disposal_started_at: vec![0; 16],
        tolerate_own: false,
        compromised: std::collections::BTreeSet::new(),
    });
    drop(g);
    circ::verif::set_event_hook(Some(on_event));
}

impl Shadow {
    pub fn bump(&mut self, k: &'static str) {
        *self.c.entry(k).or_insert(0) += 1;
    }
    pub fn add(&mut self, k: &'static str, n: u64) {
        *self.c.entry(k).or_insert(0) += n;
    }
    pub fn log(&mut self, s: String) {
        if self.trace.len() >= 400 {
            self.trace.remove(0);
        }
        self.trace.push(s);
    }
    pub fn tail(&self, n: usize) -> String {
        let k = self.trace.len().saturating_sub(n);
        self.trace[k..].join(" | ")
    }
    fn shared(&self) -> &'static Shared {
        unsafe { &*(self.shared as *const Shared) }
    }
    pub fn obj_of_word(&self, w: usize) -> Option<usize> {
        let a = addr_of_word(w);
        if a == 0 {
            None
        } else {
            match self.by_addr.get(&a) {
                Some(i) => Some(*i),
                None => {
                    let d = format!(
                        "pointer {:#x} does not refer to an allocated block; trace: {}",
                        a,
                        self.tail(30)
                    );
                    violation("C01", "O-dangling", "O-dangling", &d)
                }
            }
        }
    }
    /// Reserves an object id (ids are handed out before the allocation so that a context switch
    /// inside the constructor cannot make two threads pick the same one).
    pub fn reserve(&mut self) -> usize {
        let id = self.objs.len();
        self.objs.push(Obj {
            id,
            addr: 0,
            node: 0,
            rank: 0,
            val: 0,
            popped: true,
            dropped: true,
            freed: true,
            marked: false,
            rc_owners: 0,
            iter_shares: 0,
            weak_owners: 0,
            ever_zero: false,
            upgrade_failed: false,
            dispose_depth: None,
            had_weak: false,
            weak_after_destruct: false,
            upgrades_ok_before: 0,
            upgrades_fail_after: 0,
        });
        id
    }
    pub fn register(&mut self, id: usize, word: usize, node: *const VNode, rank: u32, val: u64) -> usize {
        let addr = addr_of_word(word);
        let o = &mut self.objs[id];
        o.addr = addr;
        o.node = node as usize;
        o.rank = rank;
        o.val = val;
        o.popped = false;
        o.dropped = false;
        o.freed = false;
        self.by_addr.insert(addr, id);
        id
    }
    /// Live strong cells (roots and edges of nodes whose pop_edges has not started) that
    /// physically contain `x` right now.
    pub fn strong_cells_containing(&self, x: usize) -> Vec<String> {
        let mut v = Vec::new();
        let xa = self.objs[x].addr;
        if self.roots_live {
            for (i, r) in self.shared().roots.iter().enumerate() {
                if addr_of_word(circ::verif::atomic_rc_peek(r)) == xa {
                    v.push(format!("root{}", i));
                }
            }
        }
        for o in &self.objs {
            if o.popped || o.freed {
                continue;
            }
            let n = unsafe { &*(o.node as *const VNode) };
            for e in 0..2 {
                if addr_of_word(circ::verif::atomic_rc_peek(&n.edges[e])) == xa {
                    v.push(format!("obj{}.edge{}", o.id, e));
                }
            }
        }
        v
    }
    pub fn weak_cells_containing(&self, x: usize) -> Vec<String> {
        let mut v = Vec::new();
        let xa = self.objs[x].addr;
        if self.roots_live {
            for (i, r) in self.shared().wroots.iter().enumerate() {
                if addr_of_word(circ::verif::atomic_weak_peek(r)) == xa {
                    v.push(format!("wroot{}", i));
                }
            }
        }
        for o in &self.objs {
            if o.dropped || o.freed {
                continue;
            }
            let n = unsafe { &*(o.node as *const VNode) };
            if addr_of_word(circ::verif::atomic_weak_peek(&n.wedge)) == xa {
                v.push(format!("obj{}.wedge", o.id));
            }
        }
        v
    }
    pub fn strong_owner_count(&self, x: usize) -> usize {
        let o = &self.objs[x];
        o.rc_owners as usize + o.iter_shares as usize + self.strong_cells_containing(x).len()
    }
    pub fn weak_owner_count(&self, x: usize) -> usize {
        self.objs[x].weak_owners as usize + self.weak_cells_containing(x).len()
    }

    /// After collection rounds by `me`: was some object protected *only* by a peer's snapshot
    /// (no definite strong owner left, not yet destructed) while those rounds ran?
    pub fn note_protection(&mut self, me: usize) {
        let hs: Vec<usize> = self.holds.iter().filter(|h| h.thread != me && !h.weak).map(|h| h.obj).collect();
        for x in hs {
            if !self.objs[x].popped && self.strong_owner_count(x) == 0 {
                self.bump("rounds_while_object_protected_only_by_peer_snapshot");
                return;
            }
        }
    }

    fn sig_tail(&self) -> String {
        let sites = sched::stall_sites();
        let names: Vec<&str> = sites.iter().map(|s| sched::site_name(*s)).collect();
        format!("stall={{{}}}", names.join(","))
    }
    fn path(&self, x: usize) -> &'static str {
        match self.objs[x].dispose_depth {
            Some(0) => "root",
            Some(_) => "cascade",
            None => "unknown",
        }
    }

    /// The liveness oracles at a destruct or free event of `x`.
    fn check_liveness(&mut self, x: usize, what: &str) {
        let o = self.objs[x].clone();
        let cells = self.strong_cells_containing(x);
        if o.rc_owners > 0 || o.iter_shares > 0 || !cells.is_empty() {
            let origin = self.rc_origin.get(&x).cloned().unwrap_or("-");
            let how = if o.rc_owners > 0 {
                format!("rc:{}", origin)
            } else if o.iter_shares > 0 {
                "iter".to_string()
            } else {
                "cell".to_string()
            };
            let sig = format!("O-own/{}/{}/{}", self.path(x), how, self.sig_tail());
            let d = format!(
                "{} of obj{} while definite strong owners exist: rc_slots={} iter_shares={} cells={:?}; trace: {}",
                what, x, o.rc_owners, o.iter_shares, cells, self.tail(40)
            );
            if self.tolerate_own && what != "dealloc" {
                // C04's check: a destruction under a live owner is C01's business; go on (without
                // touching the payload again) to see whether the object is also destructed twice
                self.bump("own_violations_tolerated");
                self.compromised.insert(x);
                return;
            }
            violation("C01", "O-own", &sig, &d);
        }
        let hs: Vec<SnapHold> = self
            .holds
            .iter()
            .filter(|h| h.obj == x && !h.weak)
            .cloned()
            .collect();
        self.bump("osnap_evals");
        if !hs.is_empty() {
            let mut origins: Vec<&str> = hs.iter().map(|h| h.origin).collect();
            origins.sort();
            origins.dedup();
            let sig = format!(
                "O-snap/{}/{}/{}",
                self.path(x),
                origins.join("+"),
                self.sig_tail()
            );
            let d = format!(
                "{} of obj{} while snapshots are held inside active critical sections: {:?}; epoch={}; trace: {}",
                what, x, hs, circ::verif::global_epoch(), self.tail(40)
            );
            violation("C02", "O-snap", &sig, &d);
        }
    }

    fn check_weak_liveness(&mut self, x: usize) {
        let o = self.objs[x].clone();
        let cells = self.weak_cells_containing(x);
        let hs: Vec<SnapHold> = self
            .holds
            .iter()
            .filter(|h| h.obj == x && h.weak)
            .cloned()
            .collect();
        if o.weak_owners > 0 || !cells.is_empty() || !hs.is_empty() {
            let how = if o.weak_owners > 0 {
                "weak"
            } else if !cells.is_empty() {
                "cell"
            } else {
                "wsnap"
            };
            let sig = format!("O-weak/{}/{}", how, self.sig_tail());
            let d = format!(
                "dealloc of obj{} while weak holders exist: weak_slots={} cells={:?} weak snapshots={:?}; trace: {}",
                x, o.weak_owners, cells, hs, self.tail(40)
            );
            violation("C03", "O-weak", &sig, &d);
        }
    }
}

fn on_pop_edges(id: usize, canary: u64) {
    with(|s| {
        s.log(format!("t{}:pop_edges(obj{})", tname(), id));
        if id >= s.objs.len() || canary != CANARY ^ id as u64 {
            let d = format!("pop_edges on a corrupted or already destructed payload (id {} canary {:#x}); trace: {}", id, canary, s.tail(40));
            violation("C04", "O-once", "O-once/pop_edges-corrupt", &d);
        }
        if s.objs[id].popped || s.objs[id].dropped || s.objs[id].freed {
            let d = format!("second pop_edges of obj{}; trace: {}", id, s.tail(40));
            violation("C04", "O-once", "O-once/pop_edges-twice", &d);
        }
        s.check_liveness(id, "pop_edges");
        s.objs[id].popped = true;
        s.bump("destructs");
        match s.objs[id].dispose_depth {
            Some(0) => s.bump("destruct_root"),
            Some(_) => s.bump("destruct_cascade"),
            None => s.bump("destruct_unknown"),
        }
        if !s.holds.is_empty() {
            s.bump("destruct_while_holds_exist");
        }
        let parked = sched::parked_now(sched::tid());
        if !parked.is_empty() {
            s.bump("destruct_while_peer_parked_midop");
        }
        // is some *other* thread parked while holding a snapshot (inside its critical section)?
        let me = sched::tid();
        if s.holds.iter().any(|h| h.thread != me && !h.weak) {
            s.bump("destruct_while_peer_holds_snapshot");
        }
    })
}

fn on_drop(id: usize, canary: u64) {
    with(|s| {
        s.log(format!("t{}:drop(obj{})", tname(), id));
        if id >= s.objs.len() || canary != CANARY ^ id as u64 {
            let d = format!("Drop on a corrupted or already destructed payload (id {} canary {:#x}); trace: {}", id, canary, s.tail(40));
            violation("C04", "O-once", "O-once/drop-corrupt", &d);
        }
        if s.objs[id].dropped || s.objs[id].freed {
            let d = format!("second Drop of obj{}; trace: {}", id, s.tail(40));
            violation("C04", "O-once", "O-once/drop-twice", &d);
        }
        if !s.objs[id].popped {
            let d = format!("Drop of obj{} without a preceding pop_edges; trace: {}", id, s.tail(40));
            violation("C04", "O-once", "O-once/drop-before-pop_edges", &d);
        }
        s.check_liveness(id, "Drop");
        s.objs[id].dropped = true;
    })
}

fn tname() -> String {
    let t = sched::tid();
    if t == sched::NOT_WORKER {
        "M".into()
    } else {
        t.to_string()
    }
}

fn on_event(kind: u32, addr: usize, aux: usize) {
    crate::sched::note_event(kind);
    use circ::verif::ev;
    with(|s| {
        let x = match s.by_addr.get(&addr) {
            Some(x) => *x,
            None => {
                if kind == ev::DEALLOC && s.untracked.remove(&addr) {
                    return;
                }
                if kind == ev::DEALLOC {
                    let d = format!("dealloc of a block that is not allocated ({:#x}); trace: {}", addr, s.tail(40));
                    violation("C04", "O-once", "O-once/dealloc-unknown", &d);
                }
                return;
            }
        };
        match kind {
            ev::DEALLOC => {
                s.log(format!("t{}:dealloc(obj{})", tname(), x));
                if !s.objs[x].dropped {
                    let d = format!("dealloc of obj{} whose payload was never destructed; trace: {}", x, s.tail(40));
                    violation("C04", "O-once", "O-once/dealloc-before-drop", &d);
                }
                s.check_liveness(x, "dealloc");
                s.check_weak_liveness(x);
                if s.objs[x].weak_after_destruct {
                    s.bump("dealloc_after_weak_outlived_object");
                }
                s.objs[x].freed = true;
                s.by_addr.remove(&addr);
                s.bump("deallocs");
            }
            ev::MARKED => {
                s.log(format!("t{}:marked(obj{})", tname(), x));
                if s.objs[x].marked {
                    let d = format!("DESTRUCTED set twice on obj{}; trace: {}", x, s.tail(40));
                    violation("C04", "O-once", "O-once/marked-twice", &d);
                }
                s.objs[x].marked = true;
            }
            ev::DISPOSE => {
                // how far the global epoch moves while one disposal pass (a root and everything
                // it reclaims recursively) is running on a thread: more than one epoch is only
                // possible because the pass re-pins the thread periodically
                let t = crate::sched::tid();
                let now = circ::verif::global_epoch() as u64;
                if t < s.disposal_started_at.len() {
                    if aux == 0 {
                        s.disposal_started_at[t] = now;
                    } else {
                        let d = now.saturating_sub(s.disposal_started_at[t]);
                        let e = s.c.entry("max_epochs_elapsed_within_one_disposal_pass").or_insert(0);
                        if d > *e {
                            *e = d;
                        }
                    }
                }
                s.objs[x].dispose_depth = Some(aux);
                s.log(format!("t{}:dispose(obj{},d{})", tname(), x, aux));
                if aux > 0 {
                    s.bump("cascade_immediate");
                }
            }
            ev::REDEFER => {
                s.log(format!("t{}:redefer(obj{},d{})", tname(), x, aux));
                s.bump("cascade_redefer");
            }
            _ => {}
        }
    })
}
