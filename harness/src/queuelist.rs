//! QueueWorld (C17) and ListWorld (C18): the collector's internal MS-queue and intrusive
//! participant list, driven by 2-4 scheduled threads; linearizability / containment oracles.

use std::collections::{BTreeMap, BTreeSet, HashSet};
use std::sync::atomic::{AtomicU64, Ordering::SeqCst};
use std::sync::Mutex;

use circ::cs;
use circ::verif::{site, VElemRef, VList, VQueue};
use proptest::prelude::*;
use proptest::strategy::BoxedStrategy;
use serde::{Deserialize, Serialize};
use serde_json::Value;

use crate::runner::{violation, Report};
use crate::sched::{self, Directive, Until};

static CLOCK: AtomicU64 = AtomicU64::new(1);
fn tick() -> u64 {
    CLOCK.fetch_add(1, SeqCst)
}

pub const SITES_RAW: &[u32] = &[
    site::RAW_LOAD,
    site::RAW_STORE,
    site::RAW_CAS,
    site::RAW_CASW,
    site::RAW_FOR,
    site::EPOCH_LOAD,
    site::EPOCH_STORE,
];

fn qdirective(n: u8) -> impl Strategy<Value = Directive> {
    let until = prop_oneof![
        2 => (1u32..4).prop_map(Until::Ops),
        3 => (0u32..25).prop_map(Until::Steps),
        6 => (0usize..5, 1u32..8).prop_map(|(i, nth)| Until::Site { site: SITES_RAW[i], nth, ops: 0 }),
        1 => Just(Until::End),
    ];
    (0..n, until).prop_map(|(thread, until)| Directive { thread, until })
}

// ------------------------------------------------------------------------------------------------
// C17

#[derive(Serialize, Deserialize, Clone, Copy, Debug, PartialEq, Eq)]
pub enum QK {
    Push,
    TryPop,
    TryPopIf,
    /// not a queue operation: `a` + 1 collection rounds (`{ let g = cs(); g.flush(); }`), so that
    /// nodes retired by earlier pops are really freed (and poisoned) within the case
    Collect,
}
#[derive(Serialize, Deserialize, Clone, Copy, Debug, PartialEq, Eq)]
pub struct QOp {
    pub k: QK,
    /// TryPopIf: the predicate is `value < 16 * a`
    pub a: u8,
}
#[derive(Serialize, Deserialize, Clone, Debug)]
pub struct QCase {
    pub prefill: u8,
    pub threads: Vec<Vec<QOp>>,
    pub sched: Vec<Directive>,
}

pub fn queue_strategy() -> BoxedStrategy<Value> {
    let op = prop_oneof![
        5 => Just(QK::Push),
        4 => Just(QK::TryPop),
        4 => Just(QK::TryPopIf),
    ];
    (2usize..=4)
        .prop_flat_map(move |n| {
            (
                0u8..4,
                proptest::collection::vec(
                    proptest::collection::vec((op.clone(), 0u8..16).prop_map(|(k, a)| QOp { k, a }), 0..=8),
                    n..=n,
                ),
                proptest::collection::vec(qdirective(n as u8), 0..=12),
            )
        })
        .prop_map(|(prefill, threads, sched)| serde_json::to_value(QCase { prefill, threads, sched }).unwrap())
        .boxed()
}

/// Queue payload: a value with an observable destructor, so that an element that is moved out
/// of the queue twice (or never) shows up as dropped twice (or never).
/// (padded so that a queue node is large enough for the poisoning allocator, >= 32 bytes)
pub struct Tok(u64, [u64; 3]);
fn tok(v: u64) -> Tok {
    Tok(v, [v; 3])
}
static TOK_DROPS: Mutex<BTreeMap<u64, u32>> = Mutex::new(BTreeMap::new());
impl Drop for Tok {
    fn drop(&mut self) {
        *TOK_DROPS.lock().unwrap().entry(self.0).or_insert(0) += 1;
    }
}

/// Q1: a conditional pop that keeps losing the race for the head: the victim is parked in front
/// of its head CAS, a rival pops the head, the victim retries, `r` times in a row. The queue is
/// never empty and the predicate always holds, so the only admissible answer is an element.
pub fn queue_starvation_strategy() -> BoxedStrategy<Value> {
    (0u32..20, 0u8..3, any::<bool>(), 1u32..3)
        .prop_map(|(r, extra_pushers, victim_plain_pop, nth)| {
            let victim = vec![QOp { k: if victim_plain_pop { QK::TryPop } else { QK::TryPopIf }, a: 16 }];
            let rival: Vec<QOp> = (0..r).map(|_| QOp { k: QK::TryPop, a: 0 }).collect();
            let mut threads = vec![victim, rival];
            for _ in 0..extra_pushers {
                threads.push(vec![QOp { k: QK::Push, a: 0 }, QOp { k: QK::Push, a: 0 }]);
            }
            let mut sched = Vec::new();
            for i in 0..r {
                sched.push(Directive { thread: 0, until: Until::Site { site: site::RAW_CAS, nth: if i == 0 { nth } else { 1 }, ops: 1 } });
                sched.push(Directive { thread: 1, until: Until::OpIndex(i + 1) });
                if extra_pushers > 0 && i % 4 == 1 {
                    sched.push(Directive { thread: 2, until: Until::Ops(1) });
                }
            }
            sched.push(Directive { thread: 0, until: Until::End });
            serde_json::to_value(QCase { prefill: 24, threads, sched }).unwrap()
        })
        .boxed()
}

/// Q2: a push parked somewhere inside the call (after `s` atomic accesses: before / after its
/// link CAS, before its tail update) while a rival pushes and pops everything, so that the nodes
/// the parked push knows are retired; the push resumes, every thread then runs collection rounds
/// until the retired nodes are really freed (poisoned), and more pushes and pops follow. A tail
/// that was moved backwards onto a retired node is then a use-after-free or a lost element.
pub fn queue_reclaim_strategy() -> BoxedStrategy<Value> {
    let park = prop_oneof![
        2 => (0u32..24).prop_map(Until::Steps),
        2 => (1u32..4).prop_map(|nth| Until::Site { site: site::RAW_CAS, nth, ops: 1 }),
        2 => (1u32..4).prop_map(|nth| Until::Site { site: site::RAW_STORE, nth, ops: 1 }),
        1 => (1u32..4).prop_map(|nth| Until::Site { site: site::RAW_LOAD, nth, ops: 1 }),
    ];
    (0u8..3, park, 1u8..4, 1u8..4, 1u8..4, any::<bool>())
        .prop_map(|(prefill, park, rival_pushes, rounds, after, third)| {
            let push = QOp { k: QK::Push, a: 0 };
            let pop = QOp { k: QK::TryPop, a: 0 };
            let collect = QOp { k: QK::Collect, a: 3 };
            let mut t0 = vec![push];
            let mut t1: Vec<QOp> = (0..rival_pushes).map(|_| push).collect();
            let pops = prefill as u32 + rival_pushes as u32 + 1;
            for _ in 0..pops {
                t1.push(pop);
            }
            let rival_ops = t1.len() as u32;
            for _ in 0..rounds {
                t0.push(collect);
                t1.push(collect);
            }
            for _ in 0..after {
                t0.push(push);
                t1.push(push);
                t1.push(pop);
            }
            let mut threads = vec![t0, t1];
            if third {
                threads.push(vec![collect, push, collect, pop]);
            }
            let mut sched = vec![
                Directive { thread: 0, until: park },
                Directive { thread: 1, until: Until::OpIndex(rival_ops) },
                Directive { thread: 0, until: Until::Ops(1) },
            ];
            for _ in 0..rounds {
                if third {
                    sched.push(Directive { thread: 2, until: Until::Ops(1) });
                }
                sched.push(Directive { thread: 0, until: Until::Ops(1) });
                sched.push(Directive { thread: 1, until: Until::Ops(1) });
            }
            serde_json::to_value(QCase { prefill, threads, sched }).unwrap()
        })
        .boxed()
}

#[derive(Clone, Debug)]
struct QRec {
    thread: usize,
    k: QK,
    arg: u64,
    res: Option<u64>,
    inv: u64,
    resp: u64,
}

static QHIST: Mutex<Vec<QRec>> = Mutex::new(Vec::new());

/// Wing-Gong style search: is there a linearisation of the complete history `h` that the
/// sequential FIFO specification accepts, starting from `init`?
fn linearizable(h: &[QRec], init: &[u64]) -> bool {
    let n = h.len();
    assert!(n <= 60);
    let mut seen: HashSet<(u64, Vec<u64>)> = HashSet::new();
    fn go(h: &[QRec], done: u64, q: &mut Vec<u64>, seen: &mut HashSet<(u64, Vec<u64>)>) -> bool {
        let n = h.len();
        if done == (1u64 << n) - 1 {
            return true;
        }
        if !seen.insert((done, q.clone())) {
            return false;
        }
        // an op may be linearised next only if no other remaining op responded before it was invoked
        let min_resp = (0..n).filter(|i| done & (1 << i) == 0).map(|i| h[i].resp).min().unwrap();
        for i in 0..n {
            if done & (1 << i) != 0 || h[i].inv > min_resp {
                continue;
            }
            let r = &h[i];
            match r.k {
                QK::Push => {
                    q.push(r.arg);
                    if go(h, done | (1 << i), q, seen) {
                        return true;
                    }
                    q.pop();
                }
                QK::Collect => unreachable!("collection rounds are not recorded in the history"),
                QK::TryPop | QK::TryPopIf => {
                    let ok_pred = |v: u64| r.k == QK::TryPop || v < r.arg;
                    match r.res {
                        Some(x) => {
                            if q.first() == Some(&x) && ok_pred(x) {
                                q.remove(0);
                                if go(h, done | (1 << i), q, seen) {
                                    return true;
                                }
                                q.insert(0, x);
                            }
                        }
                        None => {
                            let allowed = match q.first() {
                                None => true,
                                Some(v) => r.k == QK::TryPopIf && !(*v < r.arg),
                            };
                            if allowed && go(h, done | (1 << i), q, seen) {
                                return true;
                            }
                        }
                    }
                }
            }
        }
        false
    }
    let mut q = init.to_vec();
    go(h, 0, &mut q, &mut seen)
}

pub fn exec_c17(_prop: &str, v: &Value) -> Report {
    // freed queue nodes / list elements keep a poison pattern and are not reused within the case
    crate::QUARANTINE.store(true, std::sync::atomic::Ordering::SeqCst);
    let case: QCase = serde_json::from_value(v.clone()).expect("bad QCase");
    let n = case.threads.len().max(1);
    let q: &'static VQueue<Tok> = Box::leak(Box::new(VQueue::new()));
    let mut init = Vec::new();
    {
        let g = cs();
        for i in 0..case.prefill as u64 {
            // values are unique; low values so that predicates sometimes accept them
            let v = 8 * i + 3;
            q.push(tok(v), &g);
            init.push(v);
        }
    }
    sched::init(n, case.sched.clone());
    let mut handles = Vec::new();
    for t in 0..n {
        let ops = case.threads.get(t).cloned().unwrap_or_default();
        handles.push(
            std::thread::spawn(move || {
                sched::worker_enter(t);
                let _ = circ::verif::local_state();
                let mut seq = 0u64;
                for op in ops {
                    sched::op_begin();
                    if op.k == QK::Collect {
                        for _ in 0..=op.a {
                            let g = cs();
                            g.flush();
                        }
                        sched::op_done();
                        continue;
                    }
                    let g = cs();
                    let (arg, res): (u64, Option<u64>);
                    let inv = tick();
                    match op.k {
                        QK::Collect => unreachable!(),
                        QK::Push => {
                            // unique value whose low byte (what predicates look at) is spread out
                            seq += 1;
                            let low = ((seq * 37 + t as u64 * 11) % 32) * 8;
                            let val = low + 256 * (seq * 4 + t as u64 + 1);
                            q.push(tok(val), &g);
                            QHIST.lock().unwrap().push(QRec { thread: t, k: op.k, arg: val, res: None, inv, resp: tick() });
                            drop(g);
                            sched::op_done();
                            continue;
                        }
                        QK::TryPop => {
                            arg = 0;
                            res = q.try_pop(&g).map(|t| t.0);
                        }
                        QK::TryPopIf => {
                            arg = 16 * op.a as u64;
                            // the predicate looks at the low byte, so that it depends on the element
                            res = q.try_pop_if(|v| (v.0 % 256) < arg, &g).map(|t| t.0);
                        }
                    }
                    let resp = tick();
                    QHIST.lock().unwrap().push(QRec { thread: t, k: op.k, arg, res, inv, resp });
                    drop(g);
                    sched::op_done();
                }
            }),
        );
    }
    sched::run_all();
    for h in handles {
        if h.join().is_err() {
            violation("C17", "O-queue", "O-queue/panic", "a queue worker panicked");
        }
    }
    let summary = sched::finish();
    // drain
    let mut drained = Vec::new();
    {
        let g = cs();
        while let Some(v) = q.try_pop(&g).map(|t| t.0) {
            drained.push(v);
            if drained.len() > 1000 {
                violation("C17", "O-queue", "O-queue/drain-endless", "draining the queue does not terminate");
            }
        }
    }
    let hist = QHIST.lock().unwrap().clone();
    // predicates were evaluated on `v % 256`: normalise the history for the checker
    let norm: Vec<QRec> = hist.clone();
    // direct checks
    let pushed: Vec<u64> = init.iter().cloned().chain(hist.iter().filter(|r| r.k == QK::Push).map(|r| r.arg)).collect();
    let mut popped: Vec<u64> = hist.iter().filter_map(|r| if r.k != QK::Push { r.res } else { None }).collect();
    let mut seen = BTreeSet::new();
    for p in &popped {
        if !seen.insert(*p) {
            violation("C17", "O-queue", "O-queue/popped-twice", &format!("value {} was popped twice; history {:?}", p, hist));
        }
        if !pushed.contains(p) {
            violation("C17", "O-queue", "O-queue/invented", &format!("value {} was popped but never pushed; history {:?}", p, hist));
        }
    }
    popped.extend(drained.iter().cloned());
    let mut a = pushed.clone();
    a.sort();
    let mut b = popped.clone();
    b.sort();
    if a != b {
        violation("C17", "O-queue", "O-queue/lost-or-duplicated", &format!("pushed {:?} but popped+drained {:?}; history {:?}", a, b, hist));
    }
    // every element that was pushed has by now been handed out exactly once and dropped by its
    // receiver: its destructor must have run exactly once
    {
        let drops = TOK_DROPS.lock().unwrap().clone();
        for v in &pushed {
            let n = drops.get(v).cloned().unwrap_or(0);
            if n != 1 {
                violation("C17", "O-queue", if n > 1 { "O-queue/element-dropped-twice" } else { "O-queue/element-never-dropped" }, &format!("element {} was pushed once and popped once, but its destructor ran {} times; history {:?}", v, n, hist));
            }
        }
    }
    // conditional pops must satisfy their predicate
    for r in &hist {
        if r.k == QK::TryPopIf {
            if let Some(x) = r.res {
                if !((x % 256) < r.arg) {
                    violation("C17", "O-queue", "O-queue/predicate", &format!("try_pop_if(v%256 < {}) returned {}", r.arg, x));
                }
            }
        }
    }
    // linearizability against the sequential FIFO spec, the remaining content being popped by the
    // drain at the end
    let mut full = norm.clone();
    for d in &drained {
        let t = tick();
        full.push(QRec { thread: 99, k: QK::TryPop, arg: 0, res: Some(*d), inv: t, resp: t });
    }
    let t = tick();
    full.push(QRec { thread: 99, k: QK::TryPop, arg: 0, res: None, inv: t, resp: t });
    if !lin_with_pred(&full, &init) {
        violation(
            "C17",
            "O-queue",
            "O-queue/not-linearizable",
            &format!("no linearisation of this history is a FIFO queue execution (initial content {:?}): {:?}", init, full),
        );
    }
    let mut rep = Report::default();
    // overlap: two ops of different threads whose intervals intersect
    let mut overlap = false;
    for i in 0..hist.len() {
        for j in 0..hist.len() {
            if hist[i].thread != hist[j].thread && hist[i].inv < hist[j].resp && hist[j].inv < hist[i].resp {
                overlap = true;
            }
        }
    }
    let refused = hist.iter().any(|r| r.k == QK::TryPopIf && r.res.is_none());
    let cond_ok = hist.iter().any(|r| r.k == QK::TryPopIf && r.res.is_some());
    let collected = case.threads.iter().flatten().any(|o| o.k == QK::Collect);
    rep.nontrivial = overlap && (refused || collected);
    if collected {
        rep.label("collection-rounds-within-the-case");
    }
    rep.count("ops", hist.len() as u64);
    rep.count("switches", summary.switches);
    rep.count("mid_op_parks", summary.mid_op_parks);
    rep.count("conditional_pops_refused", hist.iter().filter(|r| r.k == QK::TryPopIf && r.res.is_none()).count() as u64);
    if overlap {
        rep.label("overlapping-ops");
    }
    if cond_ok {
        rep.label("conditional-pop-succeeded");
    }
    rep
}

/// The predicate of TryPopIf is `v % 256 < arg`; run the generic checker with that predicate.
fn lin_with_pred(h: &[QRec], init: &[u64]) -> bool {
    // rewrite: the checker's predicate is `v < arg`; transform values v -> (v % 256) * 2^32 + v / 256
    // (a bijection that makes the low byte the most significant part) and arg -> arg * 2^32
    let tv = |v: u64| ((v % 256) << 32) | (v / 256);
    let h2: Vec<QRec> = h
        .iter()
        .map(|r| QRec {
            thread: r.thread,
            k: r.k,
            arg: if r.k == QK::Push { tv(r.arg) } else { r.arg << 32 },
            res: r.res.map(tv),
            inv: r.inv,
            resp: r.resp,
        })
        .collect();
    let init2: Vec<u64> = init.iter().map(|v| tv(*v)).collect();
    linearizable(&h2, &init2)
}

// ------------------------------------------------------------------------------------------------
// C18

#[derive(Serialize, Deserialize, Clone, Copy, Debug, PartialEq, Eq)]
pub enum LK {
    Insert,
    Delete,
    Traverse,
}
#[derive(Serialize, Deserialize, Clone, Copy, Debug, PartialEq, Eq)]
pub struct LOp {
    pub k: LK,
    pub a: u8,
}
#[derive(Serialize, Deserialize, Clone, Debug)]
pub struct LCase {
    pub prefill: u8,
    pub threads: Vec<Vec<LOp>>,
    pub sched: Vec<Directive>,
}

pub fn list_strategy() -> BoxedStrategy<Value> {
    let op = prop_oneof![4 => Just(LK::Insert), 4 => Just(LK::Delete), 5 => Just(LK::Traverse)];
    (2usize..=4)
        .prop_flat_map(move |n| {
            (
                0u8..4,
                proptest::collection::vec(
                    proptest::collection::vec((op.clone(), any::<u8>()).prop_map(|(k, a)| LOp { k, a }), 0..=8),
                    n..=n,
                ),
                proptest::collection::vec(qdirective(n as u8), 0..=12),
            )
        })
        .prop_map(|(prefill, threads, sched)| serde_json::to_value(LCase { prefill, threads, sched }).unwrap())
        .boxed()
}

#[derive(Clone, Debug, Default)]
struct ElemRec {
    ins_inv: u64,
    ins_resp: u64,
    del_inv: Option<u64>,
    del_resp: Option<u64>,
    finalized: u32,
}
#[derive(Clone, Debug)]
struct TravRec {
    thread: usize,
    inv: u64,
    resp: u64,
    seen: Vec<usize>,
    stalled: bool,
}

static ELEMS: Mutex<BTreeMap<usize, ElemRec>> = Mutex::new(BTreeMap::new());
static TRAVS: Mutex<Vec<TravRec>> = Mutex::new(Vec::new());

fn list_event(kind: u32, addr: usize, _aux: usize) {
    if kind == circ::verif::ev::LIST_FINALIZE {
        let mut e = ELEMS.lock().unwrap();
        match e.get_mut(&addr) {
            Some(r) => {
                r.finalized += 1;
                if r.finalized > 1 {
                    violation("C18", "O-list", "O-list/finalized-twice", &format!("element {} was handed to finalize twice", addr));
                }
                if r.del_inv.is_none() {
                    violation("C18", "O-list", "O-list/finalized-live", &format!("element {} was finalized although it was never deleted", addr));
                }
            }
            None => violation("C18", "O-list", "O-list/finalized-unknown", &format!("unknown element id {} finalized", addr)),
        }
    }
}

pub fn exec_c18(prop: &str, v: &Value) -> Report {
    // freed queue nodes / list elements keep a poison pattern and are not reused within the case
    crate::QUARANTINE.store(true, std::sync::atomic::Ordering::SeqCst);
    if v.get("align").is_some() {
        // registry-churn family: the real participant registry under thread exits
        return crate::ebrworld::exec(prop, v);
    }
    let case: LCase = serde_json::from_value(v.clone()).expect("bad LCase");
    let n = case.threads.len().max(1);
    circ::verif::set_event_hook(Some(list_event));
    let list: &'static VList = Box::leak(Box::new(VList::new()));
    let mut pre: Vec<(usize, VElemRef)> = Vec::new();
    {
        let g = cs();
        for i in 0..case.prefill as usize {
            let id = 900 + i;
            let inv = tick();
            let r = list.insert(id, &g);
            let resp = tick();
            ELEMS.lock().unwrap().insert(id, ElemRec { ins_inv: inv, ins_resp: resp, ..Default::default() });
            pre.push((id, r));
        }
    }
    let pre_shared: &'static Mutex<Vec<(usize, VElemRef)>> = Box::leak(Box::new(Mutex::new(pre)));
    let leftovers: &'static Mutex<Vec<(usize, VElemRef)>> = Box::leak(Box::new(Mutex::new(Vec::new())));
    sched::init(n, case.sched.clone());
    let mut handles = Vec::new();
    for t in 0..n {
        let ops = case.threads.get(t).cloned().unwrap_or_default();
        handles.push(std::thread::spawn(move || {
            sched::worker_enter(t);
            let _ = circ::verif::local_state();
            let mut mine: Vec<(usize, VElemRef)> = Vec::new();
            let mut seq = 0usize;
            for op in ops {
                sched::op_begin();
                let g = cs();
                match op.k {
                    LK::Insert => {
                        seq += 1;
                        let id = t * 100 + seq;
                        let inv = tick();
                        ELEMS.lock().unwrap().insert(id, ElemRec { ins_inv: inv, ins_resp: u64::MAX, ..Default::default() });
                        let r = list.insert(id, &g);
                        let resp = tick();
                        ELEMS.lock().unwrap().get_mut(&id).unwrap().ins_resp = resp;
                        mine.push((id, r));
                    }
                    LK::Delete => {
                        // own elements, or (every fourth selector) one of the prefilled ones
                        let victim = if op.a % 4 == 0 {
                            let mut p = pre_shared.lock().unwrap();
                            if p.is_empty() { None } else { let i = (op.a as usize / 4) % p.len(); Some(p.remove(i)) }
                        } else if !mine.is_empty() {
                            let i = (op.a as usize * mine.len()) >> 8;
                            Some(mine.remove(i))
                        } else {
                            None
                        };
                        if let Some((id, r)) = victim {
                            let inv = tick();
                            ELEMS.lock().unwrap().get_mut(&id).unwrap().del_inv = Some(inv);
                            unsafe { list.delete(r, &g) };
                            let resp = tick();
                            ELEMS.lock().unwrap().get_mut(&id).unwrap().del_resp = Some(resp);
                        }
                    }
                    LK::Traverse => {
                        let inv = tick();
                        let res = list.traverse(&g);
                        let resp = tick();
                        let (seen, stalled) = match res {
                            Ok(s) => (s, false),
                            Err(s) => (s, true),
                        };
                        TRAVS.lock().unwrap().push(TravRec { thread: t, inv, resp, seen, stalled });
                    }
                }
                drop(g);
                sched::op_done();
            }
            leftovers.lock().unwrap().extend(mine);
        }));
    }
    sched::run_all();
    for h in handles {
        if h.join().is_err() {
            violation("C18", "O-list", "O-list/panic", "a list worker panicked");
        }
    }
    let summary = sched::finish();
    // oracle over the traversals
    let elems = ELEMS.lock().unwrap().clone();
    let travs = TRAVS.lock().unwrap().clone();
    let mut nontrivial = false;
    for tr in &travs {
        for id in &tr.seen {
            match elems.get(id) {
                None => violation("C18", "O-list", "O-list/visited-unknown", &format!("a traversal visited unknown element {}", id)),
                Some(e) => {
                    if e.ins_inv > tr.resp {
                        violation("C18", "O-list", "O-list/visited-before-insert", &format!("a traversal visited element {} whose insert was invoked only after the traversal returned", id));
                    }
                }
            }
        }
        if tr.stalled {
            continue;
        }
        for (id, e) in &elems {
            let registered_before = e.ins_resp < tr.inv;
            let not_removed_before_end = e.del_inv.map_or(true, |d| d > tr.resp);
            if registered_before && not_removed_before_end && !tr.seen.contains(id) {
                let sites = sched::stall_sites();
                let d = format!(
                    "a traversal by t{} (clock {}..{}) completed without reporting a stall but did not visit element {} (inserted {}..{}, delete invoked {:?}); visited {:?}; all elements {:?}; stalls {:?}",
                    tr.thread, tr.inv, tr.resp, id, e.ins_inv, e.ins_resp, e.del_inv, tr.seen, elems.keys().collect::<Vec<_>>(), sites
                );
                violation("C18", "O-list", "O-list/overlooked-live-element", &d);
            }
        }
        let ov_ins = elems.values().any(|e| e.ins_inv < tr.resp && e.ins_resp > tr.inv && e.ins_resp != u64::MAX);
        let ov_del = elems.values().any(|e| match (e.del_inv, e.del_resp) {
            (Some(a), Some(b)) => a < tr.resp && b > tr.inv,
            _ => false,
        });
        if ov_ins && ov_del {
            nontrivial = true;
        }
    }
    // clean-up: delete what is left, traverse until nothing is unlinked any more, then every deleted
    // element must have been finalized exactly once
    {
        let g = cs();
        let mut rest: Vec<(usize, VElemRef)> = leftovers.lock().unwrap().drain(..).collect();
        rest.extend(pre_shared.lock().unwrap().drain(..));
        for (id, r) in rest {
            ELEMS.lock().unwrap().get_mut(&id).unwrap().del_inv = Some(tick());
            unsafe { list.delete(r, &g) };
        }
        for _ in 0..4 {
            let _ = list.traverse(&g);
        }
        match list.traverse(&g) {
            Ok(s) if s.is_empty() => {}
            other => violation("C18", "O-list", "O-list/not-empty-after-cleanup", &format!("after deleting every element and four clean-up traversals the list still yields {:?}", other)),
        }
    }
    let elems = ELEMS.lock().unwrap().clone();
    for (id, e) in &elems {
        if e.finalized != 1 {
            violation("C18", "O-list", "O-list/not-finalized-once", &format!("element {} was deleted but finalized {} times after the clean-up traversals", id, e.finalized));
        }
    }
    for _ in 0..6 {
        let g = cs();
        g.flush();
    }
    let mut rep = Report::default();
    rep.nontrivial = nontrivial;
    rep.count("elements", elems.len() as u64);
    rep.count("traversals", travs.len() as u64);
    rep.count("traversals_stalled", travs.iter().filter(|t| t.stalled).count() as u64);
    rep.count("switches", summary.switches);
    rep.count("mid_op_parks", summary.mid_op_parks);
    if travs.iter().any(|t| t.stalled) {
        rep.label("stalled-traversal");
    }
    rep
}

// ---- bounded-exhaustive schedules (two preemption points) for queue and list micro-programs ----

struct QMicro {
    prefill: u8,
    a: &'static [(QK, u8)],
    b: &'static [(QK, u8)],
    ka: u32,
    kb: u32,
}

const QMICROS: &[QMicro] = &[
    QMicro { prefill: 0, a: &[(QK::Push, 0), (QK::Push, 0)], b: &[(QK::TryPop, 0), (QK::TryPop, 0)], ka: 60, kb: 60 },
    QMicro { prefill: 1, a: &[(QK::TryPop, 0), (QK::Push, 0)], b: &[(QK::TryPop, 0), (QK::TryPop, 0)], ka: 60, kb: 60 },
    QMicro { prefill: 2, a: &[(QK::TryPopIf, 1), (QK::TryPopIf, 16)], b: &[(QK::TryPop, 0), (QK::Push, 0)], ka: 60, kb: 60 },
    QMicro { prefill: 1, a: &[(QK::Push, 0), (QK::TryPopIf, 16)], b: &[(QK::Push, 0), (QK::TryPopIf, 16)], ka: 60, kb: 60 },
    QMicro { prefill: 3, a: &[(QK::TryPopIf, 16), (QK::TryPopIf, 16)], b: &[(QK::TryPopIf, 16), (QK::TryPopIf, 1)], ka: 60, kb: 60 },
    QMicro { prefill: 0, a: &[(QK::Push, 0), (QK::TryPop, 0), (QK::TryPop, 0)], b: &[(QK::Push, 0), (QK::TryPop, 0)], ka: 80, kb: 60 },
];

struct LMicro {
    prefill: u8,
    a: &'static [(LK, u8)],
    b: &'static [(LK, u8)],
    ka: u32,
    kb: u32,
}

const LMICROS: &[LMicro] = &[
    LMicro { prefill: 2, a: &[(LK::Insert, 0), (LK::Insert, 0)], b: &[(LK::Traverse, 0), (LK::Traverse, 0)], ka: 60, kb: 70 },
    LMicro { prefill: 3, a: &[(LK::Delete, 0), (LK::Delete, 4)], b: &[(LK::Traverse, 0), (LK::Traverse, 0)], ka: 50, kb: 80 },
    LMicro { prefill: 2, a: &[(LK::Insert, 0), (LK::Delete, 1), (LK::Traverse, 0)], b: &[(LK::Insert, 0), (LK::Delete, 1), (LK::Traverse, 0)], ka: 80, kb: 80 },
    LMicro { prefill: 3, a: &[(LK::Delete, 0), (LK::Traverse, 0)], b: &[(LK::Delete, 4), (LK::Traverse, 0)], ka: 70, kb: 70 },
    LMicro { prefill: 1, a: &[(LK::Insert, 0), (LK::Traverse, 0), (LK::Delete, 1)], b: &[(LK::Delete, 0), (LK::Insert, 0), (LK::Traverse, 0)], ka: 80, kb: 80 },
];

fn decode(sizes: &[(u32, u32)], stride: u32, i: u64) -> Option<(usize, u64, u32, u32)> {
    let mut rest = i;
    for (pi, (ka, kb)) in sizes.iter().enumerate() {
        let (na, nb) = ((ka + stride - 1) / stride + 1, (kb + stride - 1) / stride + 1);
        let per = 2 * na as u64 * nb as u64;
        if rest >= per {
            rest -= per;
            continue;
        }
        let order = rest / (na as u64 * nb as u64);
        let r2 = rest % (na as u64 * nb as u64);
        let (ia, ib) = ((r2 / nb as u64) as u32, (r2 % nb as u64) as u32);
        let k = if ia + 1 == na { u32::MAX / 2 } else { ia * stride };
        let m = if ib + 1 == nb { u32::MAX / 2 } else { ib * stride };
        return Some((pi, order, k, m));
    }
    None
}

fn two_point_sched(order: u64, k: u32, m: u32) -> Vec<Directive> {
    let (first, second, kf, ks) = if order == 0 { (0u8, 1u8, k, m) } else { (1u8, 0u8, m, k) };
    vec![
        Directive { thread: first, until: Until::Steps(kf) },
        Directive { thread: second, until: Until::Steps(ks) },
        Directive { thread: first, until: Until::End },
        Directive { thread: second, until: Until::End },
    ]
}

pub fn qmicro_total(tier: crate::runner::Tier) -> u64 {
    let stride: u32 = tier.pick(2, 1);
    QMICROS.iter().map(|m| 2 * ((m.ka + stride - 1) / stride + 1) as u64 * ((m.kb + stride - 1) / stride + 1) as u64).sum()
}
pub fn qmicro_enumerate(tier: crate::runner::Tier, i: u64) -> Option<Value> {
    let sizes: Vec<(u32, u32)> = QMICROS.iter().map(|m| (m.ka, m.kb)).collect();
    let (pi, order, k, mm) = decode(&sizes, tier.pick(2, 1), i)?;
    let m = &QMICROS[pi];
    let ops = |l: &[(QK, u8)]| l.iter().map(|(k, a)| QOp { k: *k, a: *a }).collect::<Vec<_>>();
    Some(serde_json::to_value(QCase { prefill: m.prefill, threads: vec![ops(m.a), ops(m.b)], sched: two_point_sched(order, k, mm) }).unwrap())
}
pub fn lmicro_total(tier: crate::runner::Tier) -> u64 {
    let stride: u32 = tier.pick(2, 1);
    LMICROS.iter().map(|m| 2 * ((m.ka + stride - 1) / stride + 1) as u64 * ((m.kb + stride - 1) / stride + 1) as u64).sum()
}
pub fn lmicro_enumerate(tier: crate::runner::Tier, i: u64) -> Option<Value> {
    let sizes: Vec<(u32, u32)> = LMICROS.iter().map(|m| (m.ka, m.kb)).collect();
    let (pi, order, k, mm) = decode(&sizes, tier.pick(2, 1), i)?;
    let m = &LMICROS[pi];
    let ops = |l: &[(LK, u8)]| l.iter().map(|(k, a)| LOp { k: *k, a: *a }).collect::<Vec<_>>();
    Some(serde_json::to_value(LCase { prefill: m.prefill, threads: vec![ops(m.a), ops(m.b)], sched: two_point_sched(order, k, mm) }).unwrap())
}
