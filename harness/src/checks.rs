//! The registered checks.

use crate::rcgen::{self, SITES_RC};
use crate::rcworld;
use crate::runner::{CheckDef, Family, Tier};
use crate::templates;
use crate::{ebrworld, micro, pure, queuelist, seq, tls};

const ASSUME_SC: &str = "only sequentially consistent interleavings at the granularity of one atomic access per step are explored";
const ASSUME_HOOKS: &str = "circ is built with --cfg circ_verif (yield points, events, read-only shims) and without debug assertions";

fn t60(_: Tier) -> u32 {
    // cases of these checks take milliseconds; 30 s (then 90 s on the retry) only ever expires on a
    // genuine hang, which is reported as inconclusive (exit 2), never as a violation
    30
}
fn s16(_: Tier) -> usize {
    16
}

pub fn all() -> Vec<CheckDef> {
    vec![
        CheckDef {
            id: "C01",
            families: vec![
                Family { enumerate: Some(micro::enumerate), variant: "", name: "micro-two-preemption-points-enumerated", strategy: |_| templates::t2(), cases: micro::total },

                Family {
                    enumerate: None,
                    variant: "",
                    name: "free-strong",
                    strategy: |t| rcgen::free_case(rcgen::W_STRONG, 4, t.pick(30, 45), t.pick(8, 14), SITES_RC),
                    cases: |t| t.pick(24_000, 240_000),
                },
                Family { enumerate: None, variant: "", name: "roles-reader-mutators-collector", strategy: |t| rcgen::role_case(t.pick(20, 30), t.pick(10, 16), SITES_RC), cases: |t| t.pick(16_000, 160_000) },
                Family { enumerate: None, variant: "", name: "T2-upgrade-vs-last-drop", strategy: |_| templates::t2(), cases: |t| t.pick(12_000, 120_000) },
                Family { enumerate: None, variant: "", name: "T1-two-owner-cascade", strategy: |_| templates::t1(), cases: |t| t.pick(4_000, 40_000) },
                Family { enumerate: None, variant: "", name: "T4-upgrade-racing-cascade", strategy: |_| templates::t4(), cases: |t| t.pick(12_000, 120_000) },
                Family { enumerate: None, variant: "", name: "T3-reader-on-chain-harris-unlink", strategy: |_| templates::t3(), cases: |t| t.pick(4_000, 40_000) },
                Family { enumerate: None, variant: "", name: "T11-upgrade-at-the-recursion-cap", strategy: |_| templates::t11(), cases: |t| t.pick(600, 6_000) },
                Family { enumerate: None, variant: "", name: "saturation-leaked-clones-around-2^29", strategy: |_| crate::sat::leak_strategy(1), cases: |t| t.pick(6, 32) },
            ],
            exec: rcworld::exec,
            rule: "free random API programs (2-4 threads, <=30 ops each, <=8 schedule directives) and choreography templates over the real library with a shadow ownership model; non-trivial = at least one object destructed, at least one Rc obtained by something other than new, and at least two context switches (saturation family: every case); distinct = distinct hash of the case",
            timeout_s: t60,
            assumptions: vec![ASSUME_SC, ASSUME_HOOKS],
            shards: s16,
        },
        CheckDef {
            id: "C02",
            families: vec![
                Family { enumerate: Some(micro::enumerate), variant: "", name: "micro-two-preemption-points-enumerated", strategy: |_| templates::t2(), cases: micro::total },

                Family {
                    enumerate: None,
                    variant: "",
                    name: "free-strong",
                    strategy: |t| rcgen::free_case(rcgen::W_STRONG, 4, t.pick(30, 45), t.pick(8, 14), SITES_RC),
                    cases: |t| t.pick(20_000, 200_000),
                },
                Family { enumerate: None, variant: "", name: "roles-reader-mutators-collector", strategy: |t| rcgen::role_case(t.pick(20, 30), t.pick(10, 16), SITES_RC), cases: |t| t.pick(30_000, 300_000) },
                Family { enumerate: None, variant: "", name: "T1-two-owner-cascade", strategy: |_| templates::t1(), cases: |t| t.pick(40_000, 400_000) },
                Family { enumerate: None, variant: "", name: "T2-upgrade-vs-last-drop", strategy: |_| templates::t2(), cases: |t| t.pick(4_000, 40_000) },
                Family { enumerate: None, variant: "", name: "T3-reader-on-chain-harris-unlink", strategy: |_| templates::t3(), cases: |t| t.pick(16_000, 160_000) },
                Family { enumerate: None, variant: "", name: "T4-upgrade-racing-cascade", strategy: |_| templates::t4(), cases: |t| t.pick(12_000, 120_000) },
                Family { enumerate: None, variant: "", name: "T5-install-into-unlinked-node", strategy: |_| templates::t5(), cases: |t| t.pick(12_000, 120_000) },
                Family { enumerate: None, variant: "", name: "T8-destructor-holding-a-guard", strategy: |_| templates::t8(), cases: |t| t.pick(12_000, 120_000) },
                Family { enumerate: None, variant: "", name: "T12-several-retired-parents-release-one-child", strategy: |_| templates::t12(), cases: |t| t.pick(6_000, 60_000) },
                Family { enumerate: None, variant: "", name: "T10-long-disposal-spanning-re-pins", strategy: |_| templates::t10(), cases: |t| t.pick(1_600, 16_000) },
                Family { enumerate: None, variant: "", name: "T11-upgrade-at-the-recursion-cap", strategy: |_| templates::t11(), cases: |t| t.pick(600, 6_000) },
                Family { enumerate: None, variant: "", name: "T9-move-into-node-dying-by-cascade", strategy: |_| templates::t9(), cases: |t| t.pick(30_000, 300_000) },
            ],
            exec: rcworld::exec,
            rule: "free programs and templates (reader / unlinker / stalled dropper / collector); non-trivial = (a) an object was destructed while another thread was inside a critical section in which it holds at least one snapshot (the O-snap oracle was evaluated against a non-empty holding set of a peer), or (b) collection rounds ran while some object had no definite strong owner left and was protected only by a peer's snapshot; distinct = distinct hash of the case",
            timeout_s: t60,
            assumptions: vec![ASSUME_SC, ASSUME_HOOKS],
            shards: s16,
        },
        CheckDef {
            id: "C03",
            families: vec![
                Family { enumerate: Some(micro::enumerate), variant: "", name: "micro-two-preemption-points-enumerated", strategy: |_| templates::t2(), cases: micro::total },

                Family {
                    enumerate: None,
                    variant: "",
                    name: "free-weak",
                    strategy: |t| rcgen::free_case(rcgen::W_WEAK, 4, t.pick(30, 45), t.pick(8, 14), SITES_RC),
                    cases: |t| t.pick(30_000, 300_000),
                },
                Family {
                    enumerate: None,
                    variant: "",
                    name: "seq-weak",
                    strategy: |t| rcgen::seq_case(rcgen::W_WEAK, t.pick(40, 80)),
                    cases: |t| t.pick(10_000, 100_000),
                },
                Family { enumerate: None, variant: "", name: "T6-zero-weak-recount", strategy: |_| templates::t6(), cases: |t| t.pick(30_000, 300_000) },
                Family { enumerate: None, variant: "", name: "T4-upgrade-racing-cascade", strategy: |_| templates::t4(), cases: |t| t.pick(4_000, 40_000) },
            ],
            exec: rcworld::exec,
            rule: "weak-biased free programs (concurrent and sequential); non-trivial = at least one block was freed strictly after its object had been destructed, with a weak holder (Weak, AtomicWeak content or WeakSnapshot) having referred to it in between; distinct = distinct hash of the case",
            timeout_s: t60,
            assumptions: vec![ASSUME_SC, ASSUME_HOOKS],
            shards: s16,
        },
        CheckDef {
            id: "C04",
            families: vec![
                Family { enumerate: Some(micro::enumerate), variant: "", name: "micro-two-preemption-points-enumerated", strategy: |_| templates::t2(), cases: micro::total },

                Family {
                    enumerate: None,
                    variant: "",
                    name: "seq-graphs",
                    strategy: |t| rcgen::seq_case(rcgen::W_STRONG, t.pick(60, 120)),
                    cases: |t| t.pick(20_000, 200_000),
                },
                Family {
                    enumerate: None,
                    variant: "",
                    name: "free-strong",
                    strategy: |t| rcgen::free_case(rcgen::W_STRONG, 4, t.pick(30, 45), t.pick(8, 14), SITES_RC),
                    cases: |t| t.pick(16_000, 160_000),
                },
                Family {
                    enumerate: None,
                    variant: "",
                    name: "free-weak",
                    strategy: |t| rcgen::free_case(rcgen::W_WEAK, 3, t.pick(30, 45), t.pick(6, 11), SITES_RC),
                    cases: |t| t.pick(6_000, 60_000),
                },
                Family { enumerate: None, variant: "", name: "T2-upgrade-vs-last-drop", strategy: |_| templates::t2(), cases: |t| t.pick(12_000, 120_000) },
                Family { enumerate: None, variant: "", name: "T4-upgrade-racing-cascade", strategy: |_| templates::t4(), cases: |t| t.pick(8_000, 80_000) },
                Family { enumerate: None, variant: "", name: "T6-zero-weak-recount", strategy: |_| templates::t6(), cases: |t| t.pick(8_000, 80_000) },
                Family { enumerate: None, variant: "", name: "T3-reader-on-chain-harris-unlink", strategy: |_| templates::t3(), cases: |t| t.pick(6_000, 60_000) },
                Family { enumerate: None, variant: "", name: "T14-two-writers-on-one-cell", strategy: |_| templates::t14(), cases: |t| t.pick(6_000, 60_000) },
            ],
            exec: rcworld::exec,
            rule: "sequential and concurrent programs that build object graphs (edges only from lower to higher rank, weak edges unrestricted) and release them in generated order; non-trivial = at least 3 objects, at least one reclaimed through the cascade and at least one as a deferred root; distinct = distinct hash of the case",
            timeout_s: t60,
            assumptions: vec![ASSUME_SC, ASSUME_HOOKS, "eventually = within 64 + 16*objects collection rounds after every handle was released and every thread exited"],
            shards: s16,
        },
        CheckDef {
            id: "C05",
            families: vec![
                Family { enumerate: Some(micro::enumerate), variant: "", name: "micro-two-preemption-points-enumerated", strategy: |_| templates::t2(), cases: micro::total },

                Family {
                    enumerate: None,
                    variant: "",
                    name: "seq-weak",
                    strategy: |t| rcgen::seq_case(rcgen::W_WEAK, t.pick(40, 80)),
                    cases: |t| t.pick(12_000, 120_000),
                },
                Family {
                    enumerate: None,
                    variant: "",
                    name: "free-weak",
                    strategy: |t| rcgen::free_case(rcgen::W_WEAK, 4, t.pick(30, 45), t.pick(8, 14), SITES_RC),
                    cases: |t| t.pick(16_000, 160_000),
                },
                Family { enumerate: None, variant: "", name: "T2-upgrade-vs-last-drop", strategy: |_| templates::t2(), cases: |t| t.pick(12_000, 120_000) },
                Family { enumerate: None, variant: "", name: "T4-upgrade-racing-cascade", strategy: |_| templates::t4(), cases: |t| t.pick(16_000, 160_000) },
                Family { enumerate: None, variant: "", name: "T6-zero-weak-recount", strategy: |_| templates::t6(), cases: |t| t.pick(4_000, 40_000) },
                Family { enumerate: None, variant: "", name: "T11-upgrade-at-the-recursion-cap", strategy: |_| templates::t11(), cases: |t| t.pick(600, 6_000) },
                Family { enumerate: None, variant: "", name: "saturation-leaked-weak-clones-around-2^29", strategy: |_| crate::sat::leak_strategy(2), cases: |t| t.pick(6, 32) },
            ],
            exec: rcworld::exec,
            rule: "programs with Weak::upgrade / WeakSnapshot::upgrade around the destruction of their object; non-trivial = the case contains a successful and a failed upgrade, or an upgrade during which another thread took steps; distinct = distinct hash of the case",
            timeout_s: t60,
            assumptions: vec![ASSUME_SC, ASSUME_HOOKS],
            shards: s16,
        },
        CheckDef {
            id: "C08",
            families: vec![
                Family { enumerate: Some(micro::enumerate), variant: "", name: "micro-two-preemption-points-enumerated", strategy: |_| templates::t2(), cases: micro::total },

                Family {
                    enumerate: None,
                    variant: "",
                    name: "seq-cell",
                    strategy: |t| rcgen::seq_case(rcgen::W_CELL, t.pick(50, 100)),
                    cases: |t| t.pick(16_000, 160_000),
                },
                Family {
                    enumerate: None,
                    variant: "",
                    name: "free-cell",
                    strategy: |t| rcgen::free_case(rcgen::W_CELL, 4, t.pick(24, 36), t.pick(8, 14), SITES_RC),
                    cases: |t| t.pick(20_000, 200_000),
                },
                Family { enumerate: None, variant: "", name: "T7-restamp-then-cas", strategy: |_| templates::t7(), cases: |t| t.pick(16_000, 160_000) },
                Family { enumerate: None, variant: "", name: "T13-cell-changed-away-and-back-around-a-parked-cas", strategy: |_| templates::t13(), cases: |t| t.pick(8_000, 80_000) },
                Family { enumerate: None, variant: "", name: "T14-two-writers-on-one-cell", strategy: |_| templates::t14(), cases: |t| t.pick(8_000, 80_000) },
            ],
            exec: rcworld::exec,
            rule: "programs hammering AtomicRc cells with load/store/swap/compare_exchange(_weak)/compare_exchange_tag; non-trivial = at least one successful and one failed CAS, or a CAS whose expected snapshot differed from the cell's word in the internal epoch bits only; distinct = distinct hash of the case",
            timeout_s: t60,
            assumptions: vec![ASSUME_SC, ASSUME_HOOKS],
            shards: s16,
        },
        CheckDef {
            id: "C09",
            families: vec![
                Family { enumerate: Some(micro::enumerate), variant: "", name: "micro-two-preemption-points-enumerated", strategy: |_| templates::t2(), cases: micro::total },

                Family {
                    enumerate: None,
                    variant: "",
                    name: "seq-wcell",
                    strategy: |t| rcgen::seq_case(rcgen::W_WCELL, t.pick(50, 100)),
                    cases: |t| t.pick(16_000, 160_000),
                },
                Family {
                    enumerate: None,
                    variant: "",
                    name: "free-wcell",
                    strategy: |t| rcgen::free_case(rcgen::W_WCELL, 4, t.pick(24, 36), t.pick(8, 14), SITES_RC),
                    cases: |t| t.pick(20_000, 200_000),
                },
                Family { enumerate: None, variant: "", name: "T7w-restamp-then-weak-cas", strategy: |_| templates::t7w(), cases: |t| t.pick(16_000, 160_000) },
                Family { enumerate: None, variant: "", name: "T13w-weak-cell-changed-away-and-back-around-a-parked-cas", strategy: |_| templates::t13w(), cases: |t| t.pick(8_000, 80_000) },
            ],
            exec: rcworld::exec,
            rule: "programs hammering AtomicWeak cells, and the restamp-then-CAS template with the expected WeakSnapshot loaded from the cell, downgraded from a Snapshot loaded from an AtomicRc written at another epoch, or taken from a Weak; non-trivial = at least one successful and one failed CAS, or a CAS whose expected WeakSnapshot differed from the cell's word in the internal epoch bits only; distinct = distinct hash of the case",
            timeout_s: t60,
            assumptions: vec![ASSUME_SC, ASSUME_HOOKS],
            shards: s16,
        },
        CheckDef {
            id: "C10",
            families: vec![
                Family {
                    enumerate: None,
                    variant: "",
                    name: "bulk-dedicated",
                    strategy: |_| seq::bulk_strategy(),
                    cases: |t| t.pick(40_000, 400_000),
                },
                Family {
                    enumerate: None,
                    variant: "",
                    name: "seq-bulk",
                    strategy: |t| rcgen::seq_case(rcgen::W_BULK, t.pick(40, 80)),
                    cases: |t| t.pick(20_000, 200_000),
                },
                Family { enumerate: None, variant: "", name: "saturation-iterator-with-huge-count", strategy: |_| crate::sat::iter_strategy(), cases: |t| t.pick(2_000, 20_000) },
            ],
            exec: seq::exec_c10,
            rule: "(1) one bulk constructor per case: new_many::<N> (N in 0,1,2,3,4,7,16), new_many_iter(count 0..40) with every consumed prefix then drop or abort, weak_many::<N> on fresh/shared/already-weaked/null receivers, owners released in a generated order with collection rounds in between; counts, pointer identity, liveness while owned, destruct+free exactly once after the last owner; (1b) new_many_iter with counts 2^k+d for k up to 64 (around the 29-bit field width and the u32/usize truncation points), up to 4 shares taken: exact behaviour or a clean rejection by panic; (2) sequential programs mixing bulk constructors with other ops under the shadow model. Non-trivial = N (count) >= 2 or == 0 for (1), at least one bulk-constructed object for (2); distinct = distinct hash of the case",
            timeout_s: t60,
            assumptions: vec![ASSUME_HOOKS],
            shards: s16,
        },
        CheckDef {
            id: "C06",
            families: vec![Family { enumerate: None, variant: "", name: "structures", strategy: seq::c06_strategy, cases: |t| t.pick(40_000, 60_000) }],
            exec: seq::exec_c06,
            rule: "chains, binary trees, combs (spine first and leaf first) and spines with twigs of n nodes (log-uniform up to 20 000 quick / 1 000 000 thorough), links stamped within a band of <=3 epochs or unstamped, head dropped when the band is 3..40 epochs old, flush delayed by 0..20 foreign epoch advances, epoch alignment 0..47, optionally one externally held node at a generated position and/or every node whose id is r modulo m held (e.g. every leaf of a comb); oracle: all unreachable nodes destructed within 40 + 16*ceil(n/1024) epoch advances after the flush, held sub-structure intact. Non-trivial = n >= 64; distinct = distinct hash of the case",
            timeout_s: |t| t.pick(120, 600),
            assumptions: vec![ASSUME_HOOKS, "the bound's constants (40, 16 per 1024 nodes) are deliberately loose: with 4-bit stamps up to 12 of every 16 epochs can look 'too recent' for the stamp residues this generator produces, see DESIGN.md 6/C06; the property is the shape of the bound"],
            shards: s16,
        },
        CheckDef {
            id: "C07",
            families: vec![Family { enumerate: None, variant: "", name: "deep-structures", strategy: seq::c07_strategy, cases: |t| t.pick(2_400, 4_800) }],
            exec: seq::exec_c07,
            rule: "chains / binary trees / combs (spine first and leaf first) / spines with twigs / chains whose nodes leave their edges to Drop, n log-uniform up to 300 000 (thorough 4 000 000), reclaimed on the main thread or on a spawned thread with 2 MiB / 1 MiB / 512 KiB stack; oracle: the process survives and every node is destructed. Non-trivial = n >= 2048 (the recursion cap is reached at least twice); distinct = distinct hash of the case",
            timeout_s: |t| t.pick(300, 900),
            assumptions: vec![ASSUME_HOOKS, "stack sizes down to a quarter of Rust's default (512 KiB) in an optimised build; any bounded recursion needs some stack"],
            shards: |t| t.pick(16, 8),
        },
        CheckDef {
            id: "C11",
            families: vec![
                Family { enumerate: None, variant: "", name: "tagged-words", strategy: |_| pure::tag_strategy(), cases: |t| t.pick(30_000, 300_000) },
                Family { enumerate: None, variant: "", name: "tagged-exhaustive-subspace", strategy: |_| pure::tag_exhaustive_strategy(), cases: |_| 64 },
                Family { enumerate: None, variant: "", name: "api-on-real-objects", strategy: |_| pure::api_tag_strategy(), cases: |t| t.pick(20_000, 200_000) },
            ],
            exec: pure::exec_c11,
            rule: "(a) the library's Tagged<T> operations on plain words at alignments 1,2,4,8,16,64,4096: boundary and random aligned addresses below 2^60, tags over the whole usize range, timestamps 0..15 and wider, plus the sub-space 16 timestamps x tags < 2*align x 4 boundary addresses enumerated completely; (b) with_tag/tag/ptr_eq/is_null/formatting/dereference through Rc, Snapshot, Weak, WeakSnapshot on real objects of payload alignment 8/16/64, the same pointer written at two different epochs. Non-trivial = a tag with bits above the alignment mask or a non-zero timestamp; distinct = distinct hash of the case",
            timeout_s: t60,
            assumptions: vec![ASSUME_HOOKS],
            shards: s16,
        },
        CheckDef {
            id: "C12",
            families: vec![
                Family { enumerate: None, variant: "", name: "state-fields", strategy: |_| pure::state_strategy(), cases: |t| t.pick(20_000, 200_000) },
                Family { enumerate: None, variant: "", name: "modular", strategy: |_| pure::mod_strategy(), cases: |t| t.pick(20_000, 200_000) },
                Family { enumerate: None, variant: "", name: "modular-exhaustive-0..255", strategy: |_| pure::mod_exhaustive_strategy(), cases: |_| 64 },
                Family { enumerate: None, variant: "", name: "decision-end-to-end", strategy: |_| seq::age_strategy(), cases: |t| t.pick(20_000, 200_000) },
            ],
            exec: pure::exec_c12,
            rule: "(a) count words built from random and boundary field values, every updater and the word arithmetic the library performs must change its own field only; (b) the library's modular le/max for current epochs 0..10 000 (dense around multiples of 16) and true ages -1..64: old-enough implies age >= 3, ages 3..13 are old enough, the merge returns its newest input, plus epochs 0..255 x ages -1..64 enumerated completely; (c) end to end: parent->child structures whose child is evaluated by the real cascade when its newest stamp has a generated true age, the DISPOSE/REDEFER event says what the code decided. Non-trivial = epoch >= 16 or age >= 14 (wrap involved) or a field at 0/max; distinct = distinct hash of the case",
            timeout_s: t60,
            assumptions: vec![ASSUME_HOOKS, "in-range values = within the field widths reported by the library (29/29/4 bits + 2 flags)"],
            shards: s16,
        },
        CheckDef {
            id: "C19",
            families: vec![Family { enumerate: None, variant: "", name: "pointer-pools", strategy: |_| pure::ord_strategy(), cases: |t| t.pick(30_000, 300_000) }],
            exec: pure::exec_c19,
            rule: "pools of 2..6 Rc (and their Snapshots) drawn from null, tagged null, the same object under different tags and write epochs, distinct objects with equal or different contents; ==, cmp, partial_cmp, hash compared with Option<&T> of the referent, ptr_eq with identity+tag, and the Eq/Ord laws over all pairs and triples. Non-trivial = the pool contains two distinct objects with equal contents, the same object under different tags/epoch bits, or null next to non-null; distinct = distinct hash of the case",
            timeout_s: t60,
            assumptions: vec![ASSUME_HOOKS],
            shards: s16,
        },
        CheckDef {
            id: "C13",
            families: vec![
                Family { enumerate: Some(ebrworld::emicro_enumerate), variant: "", name: "ebr-micro-two-preemption-points-enumerated", strategy: |_| ebrworld::e1(), cases: ebrworld::emicro_total },

                Family { enumerate: None, variant: "", name: "ebr-free", strategy: |t| ebrworld::free(ebrworld::EW_DEFAULT, 4, t.pick(24, 36), t.pick(10, 17)), cases: |t| t.pick(40_000, 400_000) },
                Family { enumerate: None, variant: "", name: "E2-nested-guards-reactivated-repeatedly", strategy: |_| ebrworld::e2(), cases: |t| t.pick(8_000, 80_000) },
                Family { enumerate: None, variant: "", name: "E4-unpin-whose-collection-loop-goes-round-several-times", strategy: |_| ebrworld::e4(), cases: |t| t.pick(8_000, 80_000) },
                Family { enumerate: None, variant: "", name: "ebr-exit", strategy: |t| ebrworld::free(ebrworld::EW_EXIT, 3, t.pick(16, 24), t.pick(8, 14)), cases: |t| t.pick(10_000, 100_000) },
                Family { enumerate: None, variant: "", name: "private-collector", strategy: |_| ebrworld::private(ebrworld::EW_DEFAULT, 50), cases: |t| t.pick(10_000, 100_000) },
            ],
            exec: ebrworld::exec,
            rule: "2-4 scheduled threads running generated pin / nested pin / drop / reactivate(_after) / defer (closures of 4..200 bytes, alignment 4..64) / flush / collection-round / exit programs on the default collector, with preemption at the epoch and raw-pointer atomics inside pin, try_advance, push_bag, collect, the bag queue and the participant list; plus sequential programs on a private collector with three participants. Oracle: a deferred function never runs while a critical section that was active at its deferral is still active. Non-trivial = at least one function was deferred while another participant's critical section was active and was executed within the case; distinct = distinct hash of the case",
            timeout_s: t60,
            assumptions: vec![ASSUME_SC, ASSUME_HOOKS],
            shards: s16,
        },
        CheckDef {
            id: "C14",
            families: vec![
                Family { enumerate: Some(ebrworld::emicro_enumerate), variant: "", name: "ebr-micro-two-preemption-points-enumerated", strategy: |_| ebrworld::e1(), cases: ebrworld::emicro_total },

                Family { enumerate: None, variant: "", name: "ebr-advance", strategy: |t| ebrworld::free(ebrworld::EW_ADVANCE, 4, t.pick(30, 45), t.pick(12, 20)), cases: |t| t.pick(40_000, 400_000) },
                Family { enumerate: None, variant: "", name: "E1-bag-overflow-inside-registry-scan", strategy: |_| ebrworld::e1(), cases: |t| t.pick(30_000, 300_000) },
                Family { enumerate: None, variant: "", name: "ebr-free", strategy: |t| ebrworld::free(ebrworld::EW_DEFAULT, 4, t.pick(24, 36), t.pick(10, 17)), cases: |t| t.pick(16_000, 160_000) },
            ],
            exec: ebrworld::exec,
            rule: "the same worlds as C13, biased to many short critical sections and re-pins; at every yield point (at most one atomic access apart) the global epoch must be equal to or one more than the previous sample, and every participant inside a checked interval (from the return of its outermost pin/reactivate until it shows unpinned after the matching drop was invoked, i.e. including unpin's collection loop and all internal re-pins) must be within one epoch of the global epoch. Non-trivial = the epoch advanced at least twice while some thread was inside a checked interval and that thread re-pinned at least once inside one; distinct = distinct hash of the case",
            timeout_s: t60,
            assumptions: vec![ASSUME_SC, ASSUME_HOOKS],
            shards: s16,
        },
        CheckDef {
            id: "C15",
            families: vec![
                Family { enumerate: Some(ebrworld::emicro_enumerate), variant: "", name: "ebr-micro-two-preemption-points-enumerated", strategy: |_| ebrworld::e1(), cases: ebrworld::emicro_total },

                Family { enumerate: None, variant: "", name: "ebr-exit", strategy: |t| ebrworld::free(ebrworld::EW_EXIT, 4, t.pick(16, 24), t.pick(8, 14)), cases: |t| t.pick(30_000, 300_000) },
                Family { enumerate: None, variant: "", name: "ebr-free", strategy: |t| ebrworld::free(ebrworld::EW_DEFAULT, 4, t.pick(24, 36), t.pick(10, 17)), cases: |t| t.pick(16_000, 160_000) },
                Family { enumerate: None, variant: "", name: "private-collector", strategy: |_| ebrworld::private(ebrworld::EW_EXIT, 50), cases: |t| t.pick(16_000, 160_000) },
                Family { enumerate: None, variant: "", name: "E3-scan-unlinks-exited-participants-in-stages", strategy: |_| ebrworld::e3(), cases: |t| t.pick(3_000, 30_000) },
            ],
            exec: ebrworld::exec,
            rule: "the same worlds as C13, biased to deferral bursts (bag fill levels 0..130) and threads that exit with garbage pending at generated points; closures carry a checksum pattern and check their own alignment. Oracle: every deferred function runs at most once at any time, with its captured data intact, and all of them have run within 64 + deferred collection rounds by the surviving thread after the others exited (for private collectors: once every handle and the collector are dropped). Non-trivial = at least one function was executed by another thread after the deferring thread had exited (private: executed at collector drop); distinct = distinct hash of the case",
            timeout_s: t60,
            assumptions: vec![ASSUME_SC, ASSUME_HOOKS, "eventually = within 64 + (number of deferred functions) collection rounds of the surviving thread"],
            shards: s16,
        },
        CheckDef {
            id: "C16",
            families: vec![
                Family { enumerate: Some(ebrworld::emicro_enumerate), variant: "", name: "ebr-micro-two-preemption-points-enumerated", strategy: |_| ebrworld::e1(), cases: ebrworld::emicro_total },

                Family { enumerate: None, variant: "", name: "E2-nested-guards-reactivated-repeatedly", strategy: |_| ebrworld::e2(), cases: |t| t.pick(8_000, 80_000) },
                Family { enumerate: None, variant: "", name: "ebr-guards", strategy: |t| ebrworld::free(ebrworld::EW_GUARDS, 3, t.pick(30, 45), t.pick(6, 11)), cases: |t| t.pick(40_000, 400_000) },
                Family { enumerate: None, variant: "", name: "private-collector", strategy: |_| ebrworld::private(ebrworld::EW_GUARDS, 60), cases: |t| t.pick(16_000, 160_000) },
                Family { enumerate: None, variant: "da", name: "ebr-guards-debug-assertions", strategy: |t| ebrworld::free(ebrworld::EW_GUARDS, 3, t.pick(30, 45), t.pick(6, 11)), cases: |t| t.pick(12_000, 120_000) },
                Family { enumerate: None, variant: "da", name: "private-collector-debug-assertions", strategy: |_| ebrworld::private(ebrworld::EW_GUARDS, 60), cases: |t| t.pick(12_000, 120_000) },
            ],
            exec: ebrworld::exec,
            rule: "programs over <=3 nested guards per thread created, dropped in any order, reactivated, reactivate_after'ed with collection rounds inside the closure and with panicking closures, the same API used from inside deferred functions during collection, next to peers that advance the epoch. Model: pinned <=> live guards > 0 and guard count equal, compared with the participant's real state after every op; reactivate on a non-sole guard leaves the announced epoch unchanged, on the sole guard re-pins at the current epoch, the thread is unpinned inside the closure only then, and is pinned again afterwards also on panic. Non-trivial = nesting depth >= 2 and at least one reactivation; distinct = distinct hash of the case",
            timeout_s: t60,
            assumptions: vec![ASSUME_SC, ASSUME_HOOKS],
            shards: s16,
        },
        CheckDef {
            id: "C17",
            families: vec![
                Family { enumerate: Some(queuelist::qmicro_enumerate), variant: "", name: "queue-micro-two-preemption-points-enumerated", strategy: |_| queuelist::queue_strategy(), cases: queuelist::qmicro_total },
                Family { enumerate: None, variant: "", name: "queue-histories", strategy: |_| queuelist::queue_strategy(), cases: |t| t.pick(60_000, 600_000) },
                Family { enumerate: None, variant: "", name: "Q1-pop-that-keeps-losing-the-head-race", strategy: |_| queuelist::queue_starvation_strategy(), cases: |t| t.pick(6_000, 60_000) },
                Family { enumerate: None, variant: "", name: "Q2-push-parked-while-its-nodes-are-retired-and-freed", strategy: |_| queuelist::queue_reclaim_strategy(), cases: |t| t.pick(6_000, 60_000) },
            ],
            exec: queuelist::exec_c17,
            rule: "2-4 scheduled threads, <=8 ops each (push of a unique value, try_pop, try_pop_if with a generated threshold on the element's low byte) on the collector's internal queue type, optionally prefilled, with preemption at the queue's loads/CASes (tail lag, head/tail crossing). Oracle: the complete invocation/response history (plus the final drain) must have a linearisation accepted by the sequential FIFO specification with conditional pop (Wing-Gong search, memoised), no value popped twice or invented, pushed = popped + drained. Family Q2 adds collection rounds (op Collect: flush + re-pin, 4 times) after a push that was parked inside the call while a rival pushed and popped everything, so that retired queue nodes are really freed - and poisoned by the harness allocator - within the case: a tail left on a freed node is a crash or a lost element. Non-trivial = operations of two threads overlapped and (at least one conditional pop was refused, or the case ran collection rounds); distinct = distinct hash of the case",
            timeout_s: t60,
            assumptions: vec![ASSUME_SC, ASSUME_HOOKS],
            shards: s16,
        },
        CheckDef {
            id: "C18",
            families: vec![
                Family { enumerate: Some(queuelist::lmicro_enumerate), variant: "", name: "list-micro-two-preemption-points-enumerated", strategy: |_| queuelist::list_strategy(), cases: queuelist::lmicro_total },
                Family { enumerate: None, variant: "", name: "list-histories", strategy: |_| queuelist::list_strategy(), cases: |t| t.pick(60_000, 600_000) },
                Family { enumerate: None, variant: "", name: "registry-churn", strategy: |t| ebrworld::free(ebrworld::EW_CHURN, 4, t.pick(10, 15), t.pick(14, 23)), cases: |t| t.pick(60_000, 600_000) },
                Family { enumerate: None, variant: "", name: "E3-scan-unlinks-exited-participants-in-stages", strategy: |_| ebrworld::e3(), cases: |t| t.pick(4_000, 40_000) },
            ],
            exec: queuelist::exec_c18,
            rule: "2-4 scheduled threads, <=8 ops each (insert, logical delete once by the owner or of a prefilled element, full traversal) on the collector's internal intrusive list type, with preemption inside insert's CAS loop, the iterator's unlink CAS and the delete mark. Oracle: a traversal that completed without reporting a stall visited every element whose insert had returned before the traversal was invoked and whose delete was not invoked before it returned; no element is visited before its insert was invoked; after deleting everything and clean-up traversals every element was finalized exactly once and the list is empty. Second family (registry-churn): 2-4 scheduled threads with short pin/round/defer programs on the default collector that exit (unregister) at generated points while others traverse the real participant registry inside try_advance; an epoch advancement that leaves a registered pinned participant more than one epoch behind has overlooked it. Third family (E3): one thread registers about 200-290 extra participants and retires them in stages of 64-73 while a second thread's collection scans the registry and is parked right after each bag it seals (or after a generated number of unlinks) and a third thread runs collection rounds in between; freed participant records and bags are poisoned and never reused within the case, so a traversal that touches a freed entry dies (crash = violation). Non-trivial = a traversal overlapped both an insert and a delete (first family); a thread exited while a peer was pinned and the epoch advanced while some thread was pinned (second family); one thread's scans unlinked at least 64 entries (third family); distinct = distinct hash of the case",
            timeout_s: t60,
            assumptions: vec![ASSUME_SC, ASSUME_HOOKS],
            shards: s16,
        },
        CheckDef {
            id: "C20",
            families: vec![
                Family { enumerate: None, variant: "", name: "thread-lifecycles", strategy: |_| tls::strategy(), cases: |t| t.pick(30_000, 300_000) },
                Family { enumerate: None, variant: "da", name: "thread-lifecycles-debug-assertions", strategy: |_| tls::strategy(), cases: |t| t.pick(20_000, 200_000) },
                Family { enumerate: None, variant: "", name: "large-collection-released-inside-destructor", strategy: tls::pile_up_strategy, cases: |t| t.pick(48, 320) },
                Family { enumerate: None, variant: "", name: "destructor-collects-after-handle-is-gone", strategy: tls::teardown_collects_strategy, cases: |t| t.pick(320, 3_200) },
            ],
            exec: tls::exec,
            rule: "a short-lived thread with up to three thread-local objects initialised in a generated order relative to circ's participant handle (so that their destructors run before or after the handle's), each destructor performing a generated list of API actions (pin, nested pin, flush, drop Rc/Weak, new+drop, chains, upgrade, load/store/swap on a shared cell, collection rounds, reactivate), a generated body, 0..130 deferrals pending at exit, and threads that first use the library inside a destructor; a family in which a destructor releases 2^10..2^20 pointers after the handle is gone and an ordinary thread (256 KiB / 512 KiB / 2 MiB / main stack) collects afterwards. Oracle: join() returns Ok, no crash, and the surviving thread's collection rounds destruct and free every object the thread created. Non-trivial = at least one API action ran in a destructor after the thread's participant handle had been destroyed; distinct = distinct hash of the case",
            timeout_s: t60,
            assumptions: vec![ASSUME_HOOKS, "glibc runs thread-local destructors in reverse order of registration (the library's own pin_while_exiting test relies on the same)", "the family `...-debug-assertions` runs the same generator against a build of circ with debug assertions on, because `without panicking` includes the panics of the library's own assertions in debug builds", "a hang is reported as inconclusive (exit 2), never as a violation"],
            shards: s16,
        },
    ]
}
