//! The registered checks.

use crate::rcgen::{self, SITES_RC};
use crate::rcworld;
use crate::runner::{CheckDef, Family, Tier};
use crate::templates;

const ASSUME_SC: &str = "only sequentially consistent interleavings at the granularity of one atomic access per step are explored";
const ASSUME_HOOKS: &str = "circ is built with --cfg circ_verif (yield points, events, read-only shims) and without debug assertions";

fn t60(_: Tier) -> u32 {
    60
}
fn s16(_: Tier) -> usize {
    16
}

pub fn all() -> Vec<CheckDef> {
    vec![
        CheckDef {
            id: "C01",
            families: vec![
                Family {
                    name: "free-strong",
                    strategy: |_| rcgen::free_case(rcgen::W_STRONG, 4, 30, 8, SITES_RC),
                    cases: |t| t.pick(24_000, 240_000),
                },
                Family { name: "T2-upgrade-vs-last-drop", strategy: |_| templates::t2(), cases: |t| t.pick(12_000, 120_000) },
                Family { name: "T1-two-owner-cascade", strategy: |_| templates::t1(), cases: |t| t.pick(4_000, 40_000) },
            ],
            exec: rcworld::exec,
            rule: "free random API programs (2-4 threads, <=30 ops each, <=8 schedule directives) and choreography templates over the real library with a shadow ownership model; non-trivial = at least one object destructed, at least one Rc obtained by something other than new, and at least two context switches; distinct = distinct hash of the case",
            timeout_s: t60,
            assumptions: vec![ASSUME_SC, ASSUME_HOOKS],
            shards: s16,
        },
        CheckDef {
            id: "C02",
            families: vec![
                Family {
                    name: "free-strong",
                    strategy: |_| rcgen::free_case(rcgen::W_STRONG, 4, 30, 8, SITES_RC),
                    cases: |t| t.pick(20_000, 200_000),
                },
                Family { name: "T1-two-owner-cascade", strategy: |_| templates::t1(), cases: |t| t.pick(16_000, 160_000) },
                Family { name: "T2-upgrade-vs-last-drop", strategy: |_| templates::t2(), cases: |t| t.pick(4_000, 40_000) },
            ],
            exec: rcworld::exec,
            rule: "free programs and templates (reader / unlinker / stalled dropper / collector); non-trivial = an object was destructed while another thread was inside a critical section in which it holds at least one snapshot (the O-snap oracle was evaluated against a non-empty holding set of a peer); distinct = distinct hash of the case",
            timeout_s: t60,
            assumptions: vec![ASSUME_SC, ASSUME_HOOKS],
            shards: s16,
        },
        CheckDef {
            id: "C03",
            families: vec![
                Family {
                    name: "free-weak",
                    strategy: |_| rcgen::free_case(rcgen::W_WEAK, 4, 30, 8, SITES_RC),
                    cases: |t| t.pick(30_000, 300_000),
                },
                Family {
                    name: "seq-weak",
                    strategy: |_| rcgen::seq_case(rcgen::W_WEAK, 40),
                    cases: |t| t.pick(10_000, 100_000),
                },
            ],
            exec: rcworld::exec,
            rule: "weak-biased free programs (concurrent and sequential); non-trivial = at least one block was freed strictly after its object had been destructed, with a weak holder (Weak, AtomicWeak content or WeakSnapshot) having referred to it in between; distinct = distinct hash of the case",
            timeout_s: t60,
            assumptions: vec![ASSUME_SC, ASSUME_HOOKS],
            shards: s16,
        },
        CheckDef {
            id: "C04",
            families: vec![
                Family {
                    name: "seq-graphs",
                    strategy: |_| rcgen::seq_case(rcgen::W_STRONG, 60),
                    cases: |t| t.pick(20_000, 200_000),
                },
                Family {
                    name: "free-strong",
                    strategy: |_| rcgen::free_case(rcgen::W_STRONG, 4, 30, 8, SITES_RC),
                    cases: |t| t.pick(16_000, 160_000),
                },
                Family {
                    name: "free-weak",
                    strategy: |_| rcgen::free_case(rcgen::W_WEAK, 3, 30, 6, SITES_RC),
                    cases: |t| t.pick(6_000, 60_000),
                },
            ],
            exec: rcworld::exec,
            rule: "sequential and concurrent programs that build object graphs (edges only from lower to higher rank, weak edges unrestricted) and release them in generated order; non-trivial = at least 3 objects, at least one reclaimed through the cascade and at least one as a deferred root; distinct = distinct hash of the case",
            timeout_s: t60,
            assumptions: vec![ASSUME_SC, ASSUME_HOOKS, "eventually = within 64 + 16*objects collection rounds after every handle was released and every thread exited"],
            shards: s16,
        },
        CheckDef {
            id: "C05",
            families: vec![
                Family {
                    name: "seq-weak",
                    strategy: |_| rcgen::seq_case(rcgen::W_WEAK, 40),
                    cases: |t| t.pick(12_000, 120_000),
                },
                Family {
                    name: "free-weak",
                    strategy: |_| rcgen::free_case(rcgen::W_WEAK, 4, 30, 8, SITES_RC),
                    cases: |t| t.pick(16_000, 160_000),
                },
                Family { name: "T2-upgrade-vs-last-drop", strategy: |_| templates::t2(), cases: |t| t.pick(12_000, 120_000) },
            ],
            exec: rcworld::exec,
            rule: "programs with Weak::upgrade / WeakSnapshot::upgrade around the destruction of their object; non-trivial = the case contains a successful and a failed upgrade, or an upgrade during which another thread took steps; distinct = distinct hash of the case",
            timeout_s: t60,
            assumptions: vec![ASSUME_SC, ASSUME_HOOKS],
            shards: s16,
        },
        CheckDef {
            id: "C08",
            families: vec![
                Family {
                    name: "seq-cell",
                    strategy: |_| rcgen::seq_case(rcgen::W_CELL, 50),
                    cases: |t| t.pick(16_000, 160_000),
                },
                Family {
                    name: "free-cell",
                    strategy: |_| rcgen::free_case(rcgen::W_CELL, 4, 24, 8, SITES_RC),
                    cases: |t| t.pick(20_000, 200_000),
                },
            ],
            exec: rcworld::exec,
            rule: "programs hammering AtomicRc cells with load/store/swap/compare_exchange(_weak)/compare_exchange_tag; non-trivial = at least one successful and one failed CAS; distinct = distinct hash of the case",
            timeout_s: t60,
            assumptions: vec![ASSUME_SC, ASSUME_HOOKS],
            shards: s16,
        },
        CheckDef {
            id: "C09",
            families: vec![
                Family {
                    name: "seq-wcell",
                    strategy: |_| rcgen::seq_case(rcgen::W_WCELL, 50),
                    cases: |t| t.pick(16_000, 160_000),
                },
                Family {
                    name: "free-wcell",
                    strategy: |_| rcgen::free_case(rcgen::W_WCELL, 4, 24, 8, SITES_RC),
                    cases: |t| t.pick(20_000, 200_000),
                },
            ],
            exec: rcworld::exec,
            rule: "programs hammering AtomicWeak cells; non-trivial = at least one successful and one failed CAS; distinct = distinct hash of the case",
            timeout_s: t60,
            assumptions: vec![ASSUME_SC, ASSUME_HOOKS],
            shards: s16,
        },
        CheckDef {
            id: "C10",
            families: vec![Family {
                name: "seq-bulk",
                strategy: |_| rcgen::seq_case(rcgen::W_BULK, 40),
                cases: |t| t.pick(20_000, 200_000),
            }],
            exec: rcworld::exec,
            rule: "sequential programs over new_many / new_many_iter / weak_many with generated release orders; non-trivial = at least one bulk-constructed object; distinct = distinct hash of the case",
            timeout_s: t60,
            assumptions: vec![ASSUME_HOOKS],
            shards: s16,
        },
    ]
}
